#!/bin/sh
# Build the symbolic engine offline from the module cache.
set -e
export GOFLAGS=-mod=mod GOPROXY=off GOSUMDB=off GOTOOLCHAIN=local
cd /verif/engine
mkdir -p /verif/bin
go build -o /verif/bin/gosym .
