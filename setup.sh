#!/bin/sh
# Build the symbolic engine offline from the module cache.
set -e
export GOFLAGS=-mod=mod GOPROXY=off GOSUMDB=off GOTOOLCHAIN=local
D=$(cd "$(dirname "$0")" && pwd)
cd "$D/engine"
mkdir -p "$D/bin"
go build -o "$D/bin/gosym.tmp" .
mv "$D/bin/gosym.tmp" "$D/bin/gosym"
