//go:build verif

package memory

// Read-only accessors for the verification harnesses.

func (m *Type) VerifSP() int       { return m.sp }
func (m *Type) VerifFrames() int   { return len(m.fp) / 2 }
func (m *Type) VerifClosures() int { return len(m.closure) }
func (m *Type) VerifStackLen() int { return len(m.stack) }
