//go:build verif

package memory

import (
	"github.com/paulsonkoly/calc/internal/vrt"
	"github.com/paulsonkoly/calc/types/value"
)

// Harness for C04 at the level of the memory model: the frame a function value points to
// (TopRef) is the variables of the call that created it. While that call is active the frame
// shows every write to its locals, however the stack grows or is reallocated in between; once
// the call has returned (or its context was abandoned and recycled) the frame keeps the values
// the variables had then, whatever later calls, pushes and context forks do.

type capRef struct {
	f     *Frame
	depth int   // call depth (1-based) of the creating call in its context; 0 once detached
	want  []int // value per slot; only slots with known[i] are compared
	known []bool
}

func (c *capRef) check(label string) {
	vrt.Assert(len(*c.f) == len(c.want), label+"/captured-frame-width")
	for i := range c.want {
		if !c.known[i] {
			continue
		}
		g, ok := (*c.f)[i].ToInt()
		vrt.Assert(ok && g == c.want[i], label+"/captured-variable-holds-its-value")
	}
}

// VerifC04Captured drives one memory through calls of symbolic widths. Calls capture their frame
// (as FUNC does), write locals, push operands across the allocation boundary, return; captured
// frames are compared after every step.
func VerifC04Captured() {
	m := New()
	k := vrt.Param("ops", 5)
	var refs []*capRef
	var live []*capRef // per call depth: the capture of that call or nil
	var widths []int
	scratch := 0
	var scr []int // operands per depth
	for step := 0; step < k; step++ {
		switch vrt.Choice("op", 7) {
		case 6: // a runtime error abandons every active call (Reset); later calls start afresh
			vrt.Assume(len(widths) > 0)
			m.Reset()
			for _, c := range live {
				if c != nil {
					c.depth = 0
				}
			}
			live, widths, scr, scratch = nil, nil, nil, 0
		case 0: // call
			a := vrt.Choice("args", 2)
			vrt.Assume(a <= scratch)
			extra := c18Size("locals")
			vrt.Assume(a+extra > 0)
			m.PushFrame(a, a+extra)
			m.Push(value.NewInt(vrt.Int("ip")))
			widths = append(widths, a+extra)
			live = append(live, nil)
			scr = append(scr, scratch-a)
			scratch = 0
		case 1: // capture the frame of the active call (FUNC); repeated captures share the frame
			vrt.Assume(len(widths) > 0)
			d := len(widths)
			f := m.TopRef()
			if live[d-1] == nil {
				c := &capRef{f: f, depth: d, want: make([]int, widths[d-1]), known: make([]bool, widths[d-1])}
				for i := 0; i < widths[d-1]; i++ {
					if c18Slot(0, i, widths[d-1]) {
						v := vrt.Int("w")
						m.Set(i, value.NewInt(v))
						c.want[i], c.known[i] = v, true
					}
				}
				live[d-1] = c
				refs = append(refs, c)
			} else {
				vrt.Assert(f == live[d-1].f, "one-frame-per-call")
			}
		case 2: // write a local of the active call
			vrt.Assume(len(widths) > 0)
			w := widths[len(widths)-1]
			i := vrt.Concrete(vrt.Range("slot", 0, w-1))
			vrt.Assume(i < 2 || i >= w-2)
			v := vrt.Int("v")
			m.Set(i, value.NewInt(v))
			if c := live[len(live)-1]; c != nil {
				c.want[i], c.known[i] = v, true
			}
		case 3: // push operands (may reallocate the stack), then write a local of the active call
			n := c18Size("operands")
			for i := 0; i < n; i++ {
				m.Push(value.NewInt(vrt.Int("o")))
			}
			scratch += n
			if len(widths) > 0 && widths[len(widths)-1] > 0 {
				v := vrt.Int("v")
				m.Set(0, value.NewInt(v))
				if c := live[len(live)-1]; c != nil {
					c.want[0], c.known[0] = v, true
				}
			}
		case 4: // return
			vrt.Assume(len(widths) > 0)
			m.PopFrame()
			if c := live[len(live)-1]; c != nil {
				c.depth = 0
			}
			live = live[:len(live)-1]
			widths = widths[:len(widths)-1]
			scratch = scr[len(scr)-1]
			scr = scr[:len(scr)-1]
		default: // a call returns and another one of a different width takes its place
			vrt.Assume(len(widths) > 0)
			m.PopFrame()
			if c := live[len(live)-1]; c != nil {
				c.depth = 0
			}
			extra := c18Size("locals2")
			vrt.Assume(extra > 0)
			m.PushFrame(0, extra)
			m.Push(value.NewInt(vrt.Int("ip")))
			widths[len(widths)-1] = extra
			live[len(live)-1] = nil
			for i := 0; i < extra; i++ {
				if c18Slot(0, i, extra) {
					m.Set(i, value.NewInt(vrt.Int("w")))
				}
			}
			scratch = 0
		}
		for _, c := range refs {
			c.check("after-op")
		}
	}
	vrt.Cover("done")
}

// VerifC04CapturedContexts: a generator context captures the frame of a call it makes, is
// abandoned in the middle of that call, and its memory is recycled for another fork; the captured
// frame keeps its values. The same for the frame copied at the fork.
func VerifC04CapturedContexts() {
	m := New()
	if vrt.Bool("fork-inside-a-call") {
		m.PushFrame(0, c18Size("parent-locals"))
		m.Push(value.NewInt(vrt.Int("ip")))
	}
	c := m.Clone(nil)
	var refs []*capRef
	capture := func(x *Type, w int) *capRef {
		r := &capRef{f: x.TopRef(), want: make([]int, w), known: make([]bool, w)}
		for i := 0; i < w; i++ {
			if c18Slot(0, i, w) {
				v := vrt.Int("v")
				x.Set(i, value.NewInt(v))
				r.want[i], r.known[i] = v, true
			}
		}
		refs = append(refs, r)
		return r
	}
	if c.CallDepth() > 0 && vrt.Bool("capture-forked-frame") {
		capture(c, len(c.Top()))
	}
	for d := vrt.Choice("calls-in-fork", 3); d > 0; d-- {
		w := c18Size("fork-locals")
		vrt.Assume(w > 0)
		c.PushFrame(0, w)
		c.Push(value.NewInt(vrt.Int("ip")))
		if vrt.Bool("capture") {
			capture(c, w)
		}
		for n := c18Size("fork-operands"); n > 0; n-- {
			c.Push(value.NewInt(vrt.Int("o")))
		}
		for _, r := range refs {
			r.check("fork-running")
		}
	}
	// abandoned as it is; the parent goes on and forks again, recycling the memory
	if m.CallDepth() > 0 && vrt.Bool("parent-returns") {
		m.PopFrame()
	}
	w := c18Size("parent-locals2")
	vrt.Assume(w > 0)
	m.PushFrame(0, w)
	m.Push(value.NewInt(vrt.Int("ip")))
	for i := 0; i < w; i++ {
		if c18Slot(0, i, w) {
			m.Set(i, value.NewInt(vrt.Int("p")))
		}
	}
	c2 := m.Clone(c)
	for _, r := range refs {
		r.check("after-recycling")
	}
	for i := 0; i < w; i++ {
		if c18Slot(0, i, w) {
			c2.Set(i, value.NewInt(vrt.Int("q")))
		}
	}
	for n := c18Size("fork2-operands"); n > 0; n-- {
		c2.Push(value.NewInt(vrt.Int("o")))
	}
	c2.PushFrame(0, 2)
	c2.Push(value.NewInt(vrt.Int("ip")))
	// a call in the recycled context creates a function value; its frame follows the growth of
	// the recycled stack and shows later writes
	r2 := capture(c2, 2)
	for n := c18Size("fork2-operands2"); n > 0; n-- {
		c2.Push(value.NewInt(vrt.Int("o")))
	}
	v := vrt.Int("q")
	c2.Set(1, value.NewInt(v))
	r2.want[1] = v
	for _, r := range refs {
		r.check("after-recycled-fork-used")
	}
	c2.PopFrame()
	c2.PushFrame(0, 2)
	c2.Push(value.NewInt(vrt.Int("ip")))
	c2.Set(0, value.NewInt(vrt.Int("q")))
	c2.Set(1, value.NewInt(vrt.Int("q")))
	for _, r := range refs {
		r.check("after-return-in-recycled-fork")
	}
	vrt.Cover("done")
}
