//go:build verif

package memory

import (
	"github.com/paulsonkoly/calc/internal/vrt"
	"github.com/paulsonkoly/calc/types/value"
)

// Harness for C18 (frames are isolated under any growth). The real memory.Type is driven through
// its exported API by solver-chosen operation sequences whose sizes cross the 128-cell allocation
// boundary, next to a reference model that has no capacity logic at all (plain appends). Every
// variable is read back after every operation; all stored values are symbolic ints.

type rMem struct {
	st   []int // logical stack; nil cells are vNil
	isn  []bool
	fp   []int
	glob map[string]int
	clo  [][]int
}

func (r *rMem) push(v int, isNil bool) {
	r.st = append(r.st, v)
	r.isn = append(r.isn, isNil)
}

func (r *rMem) clone() *rMem {
	c := &rMem{glob: r.glob}
	for _, f := range r.clo {
		c.clo = append(c.clo, f) // a forked context has its own stack of captured frames
	}
	if len(r.fp) >= 2 {
		fp, le := r.fp[len(r.fp)-2], r.fp[len(r.fp)-1]
		c.st = append([]int{}, r.st[fp:]...)
		c.isn = append([]bool{}, r.isn[fp:]...)
		c.fp = []int{0, le - fp}
	}
	return c
}

type vPair struct {
	m *Type
	r *rMem
	// a forked context never returns from, or pops the captured frame of, the activation it was
	// forked from (the VM switches back to the parent first): depths inherited at the fork
	baseFrames, baseClo int
}

func c18Compare(p vPair, label string) {
	m, r := p.m, p.r
	vrt.Assert(m.CallDepth() == len(r.fp)/2, label+"/call-depth")
	if len(r.fp) >= 2 {
		fp, le := r.fp[len(r.fp)-2], r.fp[len(r.fp)-1]
		w := le - fp
		top := m.Top()
		vrt.Assert(len(top) == w, label+"/top-frame-width")
		for i := 0; i < w; i++ {
			if !c18Slot(fp, i, w) {
				continue
			}
			got := m.LookUpLocal(i)
			if r.isn[fp+i] {
				vrt.Assert(got.IsNil(), label+"/unset-local-is-nil")
			} else {
				g, ok := got.ToInt()
				vrt.Assert(ok && g == r.st[fp+i], label+"/local-holds-last-written-value")
			}
		}
	}
	for _, name := range [...]string{"g", "h"} {
		got := m.LookUpGlobal(name)
		if want, ok := r.glob[name]; ok {
			g, isInt := got.ToInt()
			vrt.Assert(isInt && g == want, label+"/global-holds-last-written-value")
		} else {
			vrt.Assert(got.IsNil(), label+"/unset-global-is-nil")
		}
	}
	if n := len(r.clo); n > 0 {
		for i, want := range r.clo[n-1] {
			g, ok := m.LookUpClosure(i).ToInt()
			vrt.Assert(ok && g == want, label+"/captured-variable-holds-its-value")
		}
	}
}

// c18Drain pops the scratch area of the current frame and compares with the model.
func c18Drain(p vPair, label string) {
	m, r := p.m, p.r
	base := 0
	if len(r.fp) >= 2 {
		base = r.fp[len(r.fp)-1] + 1 // the return address stays
	}
	for len(r.st) > base {
		got := m.Pop()
		n := len(r.st) - 1
		if r.isn[n] {
			vrt.Assert(got.IsNil(), label+"/pop-returns-pushed-nil")
		} else {
			g, ok := got.ToInt()
			vrt.Assert(ok && g == r.st[n], label+"/pop-returns-last-pushed-value")
		}
		r.st, r.isn = r.st[:n], r.isn[:n]
	}
}

var c18Sizes = [...]int{1, 128, 200, 127, 129, 2, 0, 126, 130, 255, 256, 257, 300, 3, 125}

// c18Slot: slots worth reading/writing in a frame of width w starting at absolute position fp: the
// ends of the frame and everything next to a multiple of the 128-cell allocation unit.
func c18Slot(fp, i, w int) bool {
	if i < 2 || i >= w-2 {
		return true
	}
	for _, x := range [...]int{i, fp + i} {
		m := x % 128
		if m <= 1 || m >= 126 {
			return true
		}
	}
	return false
}

func VerifC18History() {
	k := vrt.Param("ops", 4)
	nsz := vrt.Param("sizes", len(c18Sizes))
	g := gframe{}
	_ = g
	ctx := []vPair{{m: New(), r: &rMem{glob: map[string]int{}}}}
	cur := 0
	var dead []int // indices of contexts that were abandoned and may be recycled
	for step := 0; step < k; step++ {
		p := ctx[cur]
		m, r := p.m, p.r
		scratch := len(r.st)
		if len(r.fp) >= 2 {
			scratch = len(r.st) - r.fp[len(r.fp)-1] - 1 // the return address is not an operand
		}
		switch vrt.Choice("op", 11) {
		case 0: // push n values
			n := c18Sizes[vrt.Choice("n", nsz)]
			vrt.Assume(n > 0)
			for i := 0; i < n; i++ {
				v := vrt.Int("v")
				m.Push(value.NewInt(v))
				r.push(v, false)
			}
		case 1: // pop
			vrt.Assume(scratch > 0)
			got := m.Pop()
			n := len(r.st) - 1
			if r.isn[n] {
				vrt.Assert(got.IsNil(), "pop-returns-pushed-nil")
			} else {
				gv, ok := got.ToInt()
				vrt.Assert(ok && gv == r.st[n], "pop-returns-last-pushed-value")
			}
			r.st, r.isn = r.st[:n], r.isn[:n]
		case 2: // call: a arguments already pushed, l locals in total, then the return address
			a := vrt.Choice("args", 3)
			vrt.Assume(a <= scratch)
			extra := c18Sizes[vrt.Choice("locals", nsz)]
			m.PushFrame(a, a+extra)
			for i := 0; i < extra; i++ {
				r.push(0, true)
			}
			r.fp = append(r.fp, len(r.st)-(a+extra), len(r.st))
			ip := vrt.Int("ip")
			m.Push(value.NewInt(ip))
			r.push(ip, false)
		case 3: // return
			vrt.Assume(len(r.fp) >= 2 && len(r.fp)/2 > p.baseFrames)
			ipv := m.IP()
			vrt.Assert(ipv != nil, "return-address-present")
			gv, ok := ipv.ToInt()
			vrt.Assert(ok && gv == r.st[r.fp[len(r.fp)-1]], "return-address-holds-its-value")
			m.PopFrame()
			fp := r.fp[len(r.fp)-2]
			r.st, r.isn = r.st[:fp], r.isn[:fp]
			r.fp = r.fp[:len(r.fp)-2]
		case 4: // write a local
			vrt.Assume(len(r.fp) >= 2)
			fp, le := r.fp[len(r.fp)-2], r.fp[len(r.fp)-1]
			vrt.Assume(le > fp)
			i := vrt.Concrete(vrt.Range("slot", 0, le-fp-1))
			// only the slots next to a boundary are interesting; the solver picks among them
			vrt.Assume(i < 3 || i >= le-fp-3 || (fp+i >= 125 && fp+i <= 131) || (fp+i >= 253 && fp+i <= 259))
			v := vrt.Int("v")
			m.Set(i, value.NewInt(v))
			r.st[fp+i], r.isn[fp+i] = v, false
		case 5: // global
			name := "g"
			if vrt.Bool("h") {
				name = "h"
			}
			v := vrt.Int("v")
			m.SetGlobal(name, value.NewInt(v))
			r.glob[name] = v
		case 6: // push a closure frame (as CALL does with the callee's captured frame)
			n := vrt.Choice("cwidth", 3)
			fr := make(Frame, 0, n)
			var rf []int
			for i := 0; i < n; i++ {
				v := vrt.Int("v")
				fr = append(fr, value.NewInt(v))
				rf = append(rf, v)
			}
			m.PushClosure(&fr)
			r.clo = append(r.clo, rf)
		case 7:
			vrt.Assume(len(r.clo) > p.baseClo)
			m.PopClosure()
			r.clo = r.clo[:len(r.clo)-1]
		case 8: // fork a generator context with a fresh memory and continue in it
			vrt.Assume(len(ctx) < 4)
			rc := r.clone()
			ctx = append(ctx, vPair{m: m.Clone(nil), r: rc, baseFrames: len(rc.fp) / 2, baseClo: len(rc.clo)})
			cur = len(ctx) - 1
		case 9: // abandon the current generator context and go back to main
			vrt.Assume(cur != 0)
			dead = append(dead, cur)
			cur = 0
		default: // fork a generator context recycling an abandoned one
			vrt.Assume(len(dead) > 0)
			d := dead[len(dead)-1]
			dead = dead[:len(dead)-1]
			nm := m.Clone(ctx[d].m)
			rc := r.clone()
			ctx[d] = vPair{m: nm, r: rc, baseFrames: len(rc.fp) / 2, baseClo: len(rc.clo)}
			cur = d
			vrt.Cover("recycled")
		}
		// every live context still reads what was last written to it
		for i, q := range ctx {
			isDead := false
			for _, d := range dead {
				if d == i {
					isDead = true
				}
			}
			if !isDead {
				c18Compare(q, "after-op")
			}
		}
	}
	c18Drain(ctx[cur], "drain")
	vrt.Cover("done")
}

// helpers for the scenario harnesses
func c18PushN(p vPair, n int) {
	for i := 0; i < n; i++ {
		v := vrt.Int("v")
		p.m.Push(value.NewInt(v))
		p.r.push(v, false)
	}
}

func c18Call(p vPair, a, extra int) {
	p.m.PushFrame(a, a+extra)
	n := 1 // one captured variable per activation
	fr := make(Frame, 0, n)
	var rf []int
	for i := 0; i < n; i++ {
		v := vrt.Int("cv")
		fr = append(fr, value.NewInt(v))
		rf = append(rf, v)
	}
	p.m.PushClosure(&fr)
	p.r.clo = append(p.r.clo, rf)
	for i := 0; i < extra; i++ {
		p.r.push(0, true)
	}
	p.r.fp = append(p.r.fp, len(p.r.st)-(a+extra), len(p.r.st))
	ip := vrt.Int("ip")
	p.m.Push(value.NewInt(ip))
	p.r.push(ip, false)
}

func c18Ret(p vPair) {
	r := p.r
	gv, ok := p.m.IP().ToInt()
	vrt.Assert(ok && gv == r.st[r.fp[len(r.fp)-1]], "return-address-holds-its-value")
	p.m.PopFrame()
	p.m.PopClosure()
	r.clo = r.clo[:len(r.clo)-1]
	fp := r.fp[len(r.fp)-2]
	r.st, r.isn = r.st[:fp], r.isn[:fp]
	r.fp = r.fp[:len(r.fp)-2]
}

// c18Fill writes every local of the top frame (so that truncation or misplacement shows).
func c18Fill(p vPair) {
	r := p.r
	fp, le := r.fp[len(r.fp)-2], r.fp[len(r.fp)-1]
	for i := 0; i < le-fp; i++ {
		if !c18Slot(fp, i, le-fp) {
			continue
		}
		v := vrt.Int("v")
		p.m.Set(i, value.NewInt(v))
		r.st[fp+i], r.isn[fp+i] = v, false
	}
}

func c18Size(name string) int { return c18Sizes[vrt.Choice(name, vrt.Param("sizes", len(c18Sizes)))] }

// VerifC18Frames: nested calls of arbitrary widths with arbitrary numbers of operands in between.
func VerifC18Frames() {
	p := vPair{m: New(), r: &rMem{glob: map[string]int{}}}
	depth := 1 + vrt.Choice("depth", vrt.Param("depth", 2))
	for d := 0; d < depth; d++ {
		n := c18Size("operands")
		c18PushN(p, n)
		a := vrt.Choice("args", 3)
		vrt.Assume(a <= n)
		c18Call(p, a, c18Size("locals"))
		c18Compare(p, "after-call")
		c18Fill(p)
		c18Compare(p, "after-writes")
	}
	for d := 0; d < depth; d++ {
		c18PushN(p, vrt.Choice("scratch", 3))
		c18Drain(p, "scratch")
		c18Ret(p)
		if len(p.r.fp) >= 2 {
			c18Compare(p, "after-return")
		}
	}
	c18Drain(p, "final")
	vrt.Cover("done")
}

// VerifC18Recycle: a generator context is forked (fresh), used, abandoned, and later recycled for
// a fork from a frame of a different width; the fork must see exactly the forking frame's locals
// and operands, and writes on either side must not reach the other.
func VerifC18Recycle() {
	p := vPair{m: New(), r: &rMem{glob: map[string]int{}}}
	for d := vrt.Choice("outer-calls", 3); d > 0; d-- {
		c18Call(p, 0, 1)
	}
	if vrt.Bool("fork-inside-a-call") {
		c18PushN(p, vrt.Choice("operands0", 2))
		c18Call(p, 0, c18Size("locals0"))
		c18Fill(p)
		c18PushN(p, vrt.Choice("scratch0", 2))
	}
	c := vPair{m: p.m.Clone(nil), r: p.r.clone()}
	c18Compare(c, "fresh-fork")
	c18PushN(c, c18Size("fork-operands"))
	if vrt.Bool("fork-calls") {
		c18Call(c, 0, c18Size("fork-locals"))
		c18Fill(c)
	}
	c18Compare(c, "fork-used")
	c18Compare(p, "parent-after-fork-used")
	if vrt.Bool("body-calls") {
		// the loop body (parent context) calls a function while the generator is suspended
		c18Call(p, 0, 1)
		c18Compare(c, "fork-while-parent-in-call")
		c18Compare(p, "parent-in-call")
		c18Ret(p)
		c18Compare(c, "fork-after-parent-call")
	}
	// the fork is abandoned; the parent moves on to another activation
	if len(p.r.fp) >= 2 && vrt.Bool("return-first") {
		c18Drain(p, "parent-scratch")
		c18Ret(p)
	}
	c18PushN(p, vrt.Choice("operands1", 2))
	c18Call(p, 0, c18Size("locals1"))
	c18Fill(p)
	c18PushN(p, vrt.Choice("scratch1", 2))
	c2 := vPair{m: p.m.Clone(c.m), r: p.r.clone()}
	c18Compare(c2, "recycled-fork")
	c18Fill(c2)
	c18Compare(p, "parent-after-fork-writes")
	c18PushN(c2, c18Size("fork2-operands"))
	c18Compare(c2, "recycled-fork-after-growth")
	c18Fill(p)
	c18Compare(c2, "fork-after-parent-writes")
	c18Drain(c2, "recycled-fork-drain")
	c18Drain(p, "parent-drain")
	vrt.Cover("done")
}
