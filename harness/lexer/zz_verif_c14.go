//go:build verif

package lexer

import (
	"strings"

	"github.com/paulsonkoly/calc/internal/vrt"
	"github.com/paulsonkoly/calc/types/token"
)

// Harnesses for C14 (tokenisation faithful to the text). Exported lexer API only.

type vTok struct {
	kind     token.Kind
	text     string
	from, to int
	synth    bool
}

const vSticky = "+*/=<>!-&|#%~"
const vNotSticky = "(){}[],:"

// vScan runs the lexer to exhaustion. accepted=false when the lexer reported an error.
func vScan(in string) (toks []vTok, accepted bool) {
	l := NewLexer(in)
	limit := 2*len(in) + 3
	for l.Next() {
		if l.Err != nil {
			return toks, false
		}
		t := l.Token
		synth := (t.Type == token.EOF) || (t.Type == token.EOL && t.From() == 0 && t.To() == 0 && (len(in) == 0 || in[0] != '\n' || len(toks) > 0))
		toks = append(toks, vTok{kind: t.Type, text: t.Value, from: t.From(), to: t.To(), synth: synth})
		if len(toks) > limit {
			vrt.Fail("more tokens than the input can hold")
		}
	}
	// the stream stays finished
	vrt.Assert(!l.Next(), "Next-after-end-stays-false")
	return toks, true
}

func vIn(s string, c byte) bool { return strings.IndexByte(s, c) >= 0 }

// vGapOK: text between tokens is blanks, optionally followed by a comment running to the end of the gap.
func vGapOK(gap string) (ok bool, comment bool) {
	i := 0
	for i < len(gap) && (gap[i] == ' ' || gap[i] == '\t') {
		i++
	}
	if i == len(gap) {
		return true, false
	}
	if gap[i] != ';' {
		return false, false
	}
	for ; i < len(gap); i++ {
		if gap[i] == '\n' {
			return false, true
		}
	}
	return true, true
}

func vInput() string {
	n := vrt.Param("n", 3)
	in := vrt.Bytes("in", n)
	if vrt.Param("ascii", 1) == 1 {
		for i := 0; i < len(in); i++ {
			vrt.Assume(in[i] < 0x80)
		}
	}
	return in
}

// VerifC14Lex: spans, texts, gaps, operator grouping, line breaks and the end of the stream.
func VerifC14Lex() {
	in := vInput()
	vrt.Fuel(vrt.Param("fuel", 60000))
	toks, accepted := vScan(in)
	if !accepted {
		vrt.Cover("rejected")
		return
	}
	vrt.Cover("accepted")
	// end of stream: EOL then EOF exactly once
	vrt.Assert(len(toks) >= 2, "stream-has-end-markers")
	vrt.Assert(toks[len(toks)-1].kind == token.EOF && toks[len(toks)-2].kind == token.EOL, "stream-ends-EOL-EOF")
	pos := 0
	newlines := 0
	realEOL := 0
	pendingComment := false
	for i, t := range toks {
		vrt.Assert(t.kind != token.Invalid, "no-invalid-token")
		if t.kind == token.EOF {
			vrt.Assert(i == len(toks)-1, "EOF-only-at-end")
			continue
		}
		if t.synth {
			vrt.Assert(i == len(toks)-2, "synthetic-EOL-only-before-EOF")
			vrt.Assert(i == 0 || toks[i-1].kind != token.EOL, "synthetic-EOL-only-if-last-token-is-not-EOL")
			continue
		}
		vrt.Assert(pos <= t.from && t.from < t.to && t.to <= len(in), "spans-ordered-and-inside-input")
		ok, comment := vGapOK(in[pos:t.from])
		vrt.Assert(ok, "gap-is-blanks-or-comment")
		vrt.Assert(!comment || t.kind == token.EOL, "comment-runs-to-line-break")
		_ = pendingComment
		src := in[t.from:t.to]
		if t.kind == token.StringLit {
			// the lexer itself replaces the two-character escape \n inside string literals
			vrt.Assert(t.text == strings.ReplaceAll(src, "\\n", "\n"), "string-token-text-is-source-text")
			vrt.Assert(len(src) >= 2 && src[0] == '"' && src[len(src)-1] == '"', "string-token-is-quoted")
		} else {
			vrt.Assert(t.text == src, "token-text-is-source-text")
		}
		switch t.kind {
		case token.EOL:
			vrt.Assert(src == "\n", "EOL-is-one-line-break")
			realEOL++
		case token.Sticky:
			for k := 0; k < len(src); k++ {
				vrt.Assert(vIn(vSticky, src[k]), "sticky-token-is-operator-characters")
			}
			vrt.Assert(t.to == len(in) || !vIn(vSticky, in[t.to]), "operator-run-is-maximal")
			vrt.Assert(t.from == 0 || !vIn(vSticky, in[t.from-1]), "operator-run-is-maximal")
		case token.NotSticky:
			vrt.Assert(len(src) == 1 && vIn(vNotSticky, src[0]), "bracket-token-is-single-character")
		case token.Name:
			for k := 0; k < len(src); k++ {
				vrt.Assert('a' <= src[k] && src[k] <= 'z', "name-is-lower-case-letters")
			}
			vrt.Assert(t.to == len(in) || !('a' <= in[t.to] && in[t.to] <= 'z'), "name-is-maximal")
		case token.IntLit:
			for k := 0; k < len(src); k++ {
				vrt.Assert('0' <= src[k] && src[k] <= '9', "int-literal-is-digits")
			}
			vrt.Assert(t.to == len(in) || !('0' <= in[t.to] && in[t.to] <= '9'), "int-literal-is-maximal")
		case token.FloatLit:
			dots := 0
			for k := 0; k < len(src); k++ {
				if src[k] == '.' {
					dots++
				} else {
					vrt.Assert('0' <= src[k] && src[k] <= '9', "float-literal-is-digits-and-dot")
				}
			}
			vrt.Assert(dots == 1 && src[0] != '.', "float-literal-has-one-dot-after-digits")
		}
		for k := t.from; k < t.to; k++ {
			if in[k] == '\n' && t.kind != token.StringLit {
				newlines++
			}
		}
		pos = t.to
	}
	ok, _ := vGapOK(in[pos:])
	vrt.Assert(ok, "trailing-text-is-blanks-or-comment")
	vrt.Assert(realEOL == newlines, "one-EOL-token-per-line-break")
	// every line break outside string literals is inside an EOL token
	inTok := 0
	for _, t := range toks {
		if !t.synth && t.kind != token.EOF {
			for k := t.from; k < t.to; k++ {
				if in[k] == '\n' {
					inTok++
				}
			}
		}
	}
	total := 0
	for k := 0; k < len(in); k++ {
		if in[k] == '\n' {
			total++
		}
	}
	vrt.Assert(inTok == total, "no-line-break-lost-between-tokens")
}

// VerifC14Layout: inserting a blank at a token boundary, or a comment in front of a line break,
// changes no token kind or text.
func VerifC14Layout() {
	in := vInput()
	vrt.Fuel(vrt.Param("fuel", 120000))
	toks, accepted := vScan(in)
	if !accepted {
		return
	}
	// boundaries: start and end of every real token
	var cuts []int
	var isEOL []bool
	for _, t := range toks {
		if t.synth || t.kind == token.EOF {
			continue
		}
		cuts = append(cuts, t.from, t.to)
		isEOL = append(isEOL, t.kind == token.EOL, false)
	}
	if len(cuts) == 0 {
		return
	}
	c := vrt.Choice("cut", len(cuts))
	p := cuts[c]
	// a cut inside a comment (gap text before the cut contains ';') is not a token boundary in the
	// sense of the property unless it is the line break ending it
	ins := " "
	if vrt.Bool("comment") {
		vrt.Assume(isEOL[c])
		ins = ";x"
	} else {
		start := 0
		for _, t := range toks {
			if !t.synth && t.kind != token.EOF && t.to <= p {
				start = t.to
			}
		}
		vrt.Assume(!vIn(in[start:p], ';'))
	}
	in2 := in[:p] + ins + in[p:]
	toks2, accepted2 := vScan(in2)
	vrt.Assert(accepted2, "layout-change-keeps-input-accepted")
	vrt.Assert(len(toks) == len(toks2), "layout-change-keeps-token-count")
	for i := range toks {
		vrt.Assert(toks[i].kind == toks2[i].kind, "layout-change-keeps-token-kinds")
		vrt.Assert(toks[i].text == toks2[i].text, "layout-change-keeps-token-texts")
	}
	vrt.Cover("compared")
}
