//go:build verif

package lexer

import (
	"github.com/paulsonkoly/calc/combinator"
	"github.com/paulsonkoly/calc/internal/vrt"
	"github.com/paulsonkoly/calc/types/token"
)

// Harnesses for C13 (backtracking is invisible).

const vText = "a 1 b 2 c" // 5 tokens + synthetic EOL + EOF = 7

func vTexts() string {
	switch vrt.Choice("text", 5) {
	case 0:
		return ""
	case 1:
		return "a"
	case 2:
		return "a 1\nb"
	case 3:
		return "a $ b" // contains a lexer error
	default:
		return vText
	}
}

type vRef struct {
	tok      token.Type
	err      error
	from, to int
}

// vFresh is the reference: what a fresh scan of the input returns, token by token.
func vFresh(in string) []vRef {
	tl := NewTLexer(in)
	var s []vRef
	for tl.Next() {
		s = append(s, vRef{tok: tl.Token().(token.Type), err: tl.Err(), from: tl.From(), to: tl.To()})
		if len(s) > 2*len(in)+4 {
			vrt.Fail("fresh scan does not end")
		}
	}
	return s
}

func vSame(tl *TLexer, r vRef, label string) {
	vrt.Assert(tl.Token().(token.Type) == r.tok, label+"/token-equals-fresh-scan")
	vrt.Assert(tl.Err() == r.err || (tl.Err() != nil && r.err != nil), label+"/error-equals-fresh-scan")
	vrt.Assert(tl.From() == r.from && tl.To() == r.to, label+"/span-equals-fresh-scan")
}

// vOps applies k arbitrary operations to tl and checks each against the cursor model
// (cursor p over the fresh stream, stack of saved cursors).
func vOps(tl *TLexer, s []vRef, p int, saved []int, k int, label string) {
	for i := 0; i < k; i++ {
		switch vrt.Choice("op", 4) {
		case 0: // advance
			got := tl.Next()
			vrt.Assert(got == (p+1 < len(s)), label+"/Next-result")
			if got {
				p++
				vSame(tl, s[p], label)
			}
		case 1:
			tl.Snapshot()
			saved = append(saved, p)
		case 2:
			vrt.Assume(len(saved) > 0)
			tl.Rollback()
			p = saved[len(saved)-1]
			saved = saved[:len(saved)-1]
			if p >= 0 {
				vSame(tl, s[p], label+"/after-rollback")
			}
		default:
			vrt.Assume(len(saved) > 0)
			tl.Commit()
			saved = saved[:len(saved)-1]
			if p >= 0 {
				vSame(tl, s[p], label+"/after-commit")
			}
		}
	}
	// whatever happened, from here on the lexer yields the rest of the fresh stream
	for n := 0; n <= len(s); n++ {
		got := tl.Next()
		vrt.Assert(got == (p+1 < len(s)), label+"/tail-Next-result")
		if !got {
			break
		}
		p++
		vSame(tl, s[p], label+"/tail")
	}
	vrt.Cover("ops-done")
}

// VerifC13History: arbitrary operation sequences from a new transactional lexer.
func VerifC13History() {
	in := vTexts()
	s := vFresh(in)
	tl := NewTLexer(in)
	vOps(&tl, s, -1, nil, vrt.Param("ops", 5), "history")
}

// VerifC13Step: operations from an arbitrary state satisfying the representation invariant
// (w tokens cached, cursor r anywhere in -1..w-1, non-decreasing saved cursors <= r), all symbolic.
func VerifC13Step() {
	in := vTexts()
	s := vFresh(in)
	tl := NewTLexer(in)
	w := vrt.Choice("cached", len(s)+1)
	for i := 0; i < w; i++ {
		vrt.Assume(tl.Next())
	}
	r := vrt.Range("cursor", -1, w-1)
	np := vrt.Choice("saved", 4)
	saved := make([]int, 0, np)
	prev := -1
	for i := 0; i < np; i++ {
		q := vrt.Range("savedcursor", prev, w-1)
		vrt.Assume(q <= r)
		saved = append(saved, q)
		prev = q
	}
	// the solver enumerates every state that satisfies the invariant
	rc := vrt.Concrete(r)
	for i := range saved {
		saved[i] = vrt.Concrete(saved[i])
	}
	tl.readp = rc
	tl.pointers = append([]int{}, saved...)
	vOps(&tl, s, rc, saved, vrt.Param("stepops", 2), "step")
}

// ---------- combinators against an ordered-choice reference ----------

const (
	pStub   = iota
	pAccept // Accept(token is a Name)
	pOk
	pAssert
	pAssertNot
	pDrop
	pOneOf
	pChoose // subs are gate, success pairs
	pAny    // subs: gate, success
	pSepBy
	pAnd
	pSeq
	pSurr
	pFmap
)

type vP struct {
	op   int
	k    int
	subs []*vP
}

func st(k int) *vP               { return &vP{op: pStub, k: k} }
func mk(op int, subs ...*vP) *vP { return &vP{op: op, subs: subs} }

// vTab: stub parser k at position p succeeds or fails and consumes 0..2 tokens, an arbitrary
// but fixed function of (k, p) chosen by the solver on first use.
type vTab struct {
	known [3][8]bool
	ok    [3][8]bool
	use   [3][8]int
}

func (t *vTab) get(k, p int) (bool, int) {
	if !t.known[k][p] {
		t.known[k][p] = true
		t.ok[k][p] = vrt.Bool("stub.ok")
		if t.ok[k][p] {
			t.use[k][p] = 1 + vrt.Choice("stub.use", 2)
		} else {
			t.use[k][p] = vrt.Choice("stub.use", vrt.Param("failuse", 2))
		}
	}
	return t.ok[k][p], t.use[k][p]
}

type vWrap struct{}

func (vWrap) Wrap(t combinator.Token) combinator.Node { return 1000 + t.From() }

func vRev(n []combinator.Node) []combinator.Node {
	r := make([]combinator.Node, 0, len(n))
	for i := len(n) - 1; i >= 0; i-- {
		r = append(r, n[i])
	}
	return r
}

// build constructs the real combinator parser for x.
func (x *vP) build(tl *TLexer, tab *vTab) combinator.Parser {
	sub := func(i int) combinator.Parser { return x.subs[i].build(tl, tab) }
	switch x.op {
	case pStub:
		k := x.k
		return func(input combinator.RollbackLexer) ([]combinator.Node, *combinator.Error) {
			p := tl.readp + 1
			ok, use := tab.get(k, p)
			for i := 0; i < use; i++ {
				if !input.Next() {
					return nil, combinator.NewError("stub: end of input", 0, 0)
				}
			}
			if !ok {
				return nil, combinator.NewError("stub fails", 0, 0)
			}
			return []combinator.Node{k*100 + p}, nil
		}
	case pAccept:
		return combinator.Accept(func(t combinator.Token) bool { return t.(token.Type).Type == token.Name }, "name", vWrap{})
	case pOk:
		return combinator.Ok()
	case pAssert:
		return combinator.Assert(sub(0))
	case pAssertNot:
		return combinator.Assert(combinator.Not(sub(0)))
	case pDrop:
		return combinator.Drop(sub(0))
	case pOneOf:
		ps := make([]combinator.Parser, 0, len(x.subs))
		for i := range x.subs {
			ps = append(ps, sub(i))
		}
		return combinator.OneOf(ps...)
	case pChoose:
		cs := make([]combinator.Conditional, 0, len(x.subs)/2)
		for i := 0; i+1 < len(x.subs); i += 2 {
			cs = append(cs, combinator.Conditional{Gate: sub(i), OnSuccess: sub(i + 1)})
		}
		return combinator.Choose(cs...)
	case pAny:
		return combinator.Any(combinator.Conditional{Gate: sub(0), OnSuccess: sub(1)})
	case pSepBy:
		return combinator.SeparatedBy(sub(0), sub(1))
	case pAnd:
		return combinator.And(sub(0), sub(1))
	case pSeq:
		ps := make([]combinator.Parser, 0, len(x.subs))
		for i := range x.subs {
			ps = append(ps, sub(i))
		}
		return combinator.Seq(ps...)
	case pSurr:
		return combinator.SurroundedBy(sub(0), sub(1), sub(2))
	default:
		return combinator.Fmap(vRev, sub(0))
	}
}

// ref is the ordered-choice recogniser over the token list: position in, (ok, position out, results).
// A failing alternative of a choice/repetition/look-ahead/separator leaves the position where it was.
func (x *vP) ref(tab *vTab, s []vRef, pos int) (bool, int, []int) {
	switch x.op {
	case pStub:
		ok, use := tab.get(x.k, pos)
		if pos+use > len(s) {
			return false, len(s), nil
		}
		if !ok {
			return false, pos + use, nil
		}
		return true, pos + use, []int{x.k*100 + pos}
	case pAccept:
		if pos >= len(s) {
			return false, pos, nil
		}
		if s[pos].err != nil || s[pos].tok.Type != token.Name {
			return false, pos + 1, nil
		}
		return true, pos + 1, []int{1000 + s[pos].tok.From()}
	case pOk:
		return true, pos, nil
	case pAssert:
		ok, _, _ := x.subs[0].ref(tab, s, pos)
		return ok, pos, nil
	case pAssertNot:
		ok, _, _ := x.subs[0].ref(tab, s, pos)
		return !ok, pos, nil
	case pDrop:
		ok, np, _ := x.subs[0].ref(tab, s, pos)
		return ok, np, nil
	case pOneOf:
		for _, a := range x.subs {
			if ok, np, r := a.ref(tab, s, pos); ok {
				return true, np, r
			}
		}
		return false, pos, nil
	case pChoose:
		for i := 0; i+1 < len(x.subs); i += 2 {
			if ok, np, r := x.subs[i].ref(tab, s, pos); ok {
				ok2, np2, r2 := x.subs[i+1].ref(tab, s, np)
				if !ok2 {
					return false, np2, nil
				}
				return true, np2, append(append([]int{}, r...), r2...)
			}
		}
		vrt.Fail("reference: no gate succeeded (harness shapes always end with Ok)")
		return false, pos, nil
	case pAny:
		var out []int
		for n := 0; n <= 2*len(s)+2; n++ {
			ok, np, r := x.subs[0].ref(tab, s, pos)
			if !ok {
				return true, pos, out
			}
			ok2, np2, r2 := x.subs[1].ref(tab, s, np)
			out = append(append(out, r...), r2...)
			pos = np2
			if !ok2 {
				return false, pos, out
			}
		}
		vrt.Fail("reference: repetition does not terminate")
		return false, pos, nil
	case pSepBy:
		ok, np, out := x.subs[0].ref(tab, s, pos)
		if !ok {
			return true, pos, nil
		}
		pos = np
		for n := 0; n <= len(s)+1; n++ {
			okb, npb, _ := x.subs[1].ref(tab, s, pos)
			if !okb {
				return true, pos, out
			}
			oka, npa, ra := x.subs[0].ref(tab, s, npb)
			if !oka {
				return true, pos, out
			}
			out = append(out, ra...)
			pos = npa
		}
		return true, pos, out
	case pAnd, pSeq:
		var out []int
		for _, a := range x.subs {
			ok, np, r := a.ref(tab, s, pos)
			pos = np
			if !ok {
				return false, pos, nil
			}
			out = append(out, r...)
		}
		return true, pos, out
	case pSurr:
		oka, npa, _ := x.subs[0].ref(tab, s, pos)
		if !oka {
			return false, npa, nil
		}
		okb, npb, rb := x.subs[1].ref(tab, s, npa)
		if !okb {
			return false, npb, nil
		}
		okc, npc, _ := x.subs[2].ref(tab, s, npb)
		return okc, npc, rb
	default:
		ok, np, r := x.subs[0].ref(tab, s, pos)
		if !ok {
			return false, np, nil
		}
		rr := make([]int, 0, len(r))
		for i := len(r) - 1; i >= 0; i-- {
			rr = append(rr, r[i])
		}
		return true, np, rr
	}
}

func vShape(n int) *vP {
	A, B, C, N, OK := st(0), st(1), st(2), &vP{op: pAccept}, &vP{op: pOk}
	switch n {
	case 0:
		return mk(pOneOf, A, B)
	case 1:
		return mk(pOneOf, A, B, C)
	case 2:
		return mk(pChoose, A, B, OK, C)
	case 3:
		return mk(pChoose, mk(pAssert, A), B, mk(pAssert, mk(pAnd, A, B)), C, OK, A)
	case 4:
		return mk(pAny, A, B)
	case 5:
		return mk(pAny, mk(pAssert, A), B)
	case 6:
		return mk(pSepBy, A, B)
	case 7:
		return mk(pAnd, mk(pAssert, A), B)
	case 8:
		return mk(pAnd, mk(pAssertNot, A), B)
	case 9:
		return mk(pAnd, A, B)
	case 10:
		return mk(pSeq, A, B, C)
	case 11:
		return mk(pSurr, A, B, C)
	case 12:
		return mk(pAnd, mk(pDrop, A), B)
	case 13:
		return mk(pFmap, mk(pAnd, A, B))
	case 14:
		return mk(pOneOf, mk(pAnd, A, B), mk(pAnd, A, C))
	case 15:
		return mk(pOneOf, mk(pSeq, A, mk(pAny, B, OK)), C)
	case 16:
		return mk(pSepBy, mk(pOneOf, A, B), C)
	case 17:
		return mk(pAnd, mk(pSepBy, A, B), C)
	case 18:
		return mk(pAnd, mk(pAny, A, OK), B)
	case 19:
		return mk(pAnd, mk(pOneOf, mk(pAnd, A, B), C), A)
	case 20:
		return mk(pChoose, mk(pOneOf, A, B), C, OK, OK)
	case 21:
		return mk(pAny, mk(pOneOf, A, B), OK)
	case 22:
		return mk(pSepBy, mk(pAnd, A, B), C)
	case 23:
		return mk(pOneOf, mk(pAnd, N, A), mk(pAnd, N, N), B)
	case 24:
		return mk(pSepBy, N, A)
	case 25:
		return mk(pAny, mk(pAssert, mk(pAnd, N, A)), mk(pAnd, N, B))
	case 26:
		return mk(pAnd, mk(pAny, mk(pSepBy, A, B), C), A)
	default:
		return mk(pOneOf, mk(pSepBy, mk(pAnd, A, B), C), A)
	}
}

const vShapes = 28

// VerifC13Comb: each combinator shape over the real transactional lexer, with arbitrary stub
// sub-parsers, accepts/rejects/builds/leaves the position exactly as the reference recogniser.
func VerifC13Comb() {
	in := vText[:vrt.Param("textlen", 5)] // "a 1 b" = 3 tokens + EOL + EOF
	if vrt.Param("texts", 1) > 1 {
		in = vTexts()
	}
	s := vFresh(in)
	shape := vrt.Choice("shape", vShapes)
	if lo := vrt.Param("shape_lo", -1); lo >= 0 {
		vrt.Assume(shape >= lo && shape < vrt.Param("shape_hi", vShapes))
	}
	x := vShape(shape)
	tl := NewTLexer(in)
	start := vrt.Choice("start", vrt.Param("starts", 2))
	vrt.Assume(start <= len(s))
	for i := 0; i < start; i++ {
		vrt.Assume(tl.Next())
	}
	tab := &vTab{}
	rok, rpos, rres := x.ref(tab, s, start)
	p := x.build(&tl, tab)
	res, err := p(&tl)
	vrt.Assert((err == nil) == rok, "accepts-iff-reference-accepts")
	vrt.Assert(tl.readp+1 == rpos, "position-equals-reference-position")
	vrt.Assert(len(tl.pointers) == 0, "snapshot-stack-restored")
	if rok {
		vrt.Assert(len(res) == len(rres), "result-count-equals-reference")
		for i := range rres {
			if i < len(res) {
				v, isInt := res[i].(int)
				vrt.Assert(isInt && v == rres[i], "result-equals-reference")
			}
		}
		vrt.Cover("accepted")
	} else {
		vrt.Cover("rejected")
	}
	// and the lexer continues with the fresh stream from the reference position
	pos := rpos
	for n := 0; n <= len(s); n++ {
		got := tl.Next()
		vrt.Assert(got == (pos < len(s)), "tail-Next-result")
		if !got {
			break
		}
		vSame(&tl, s[pos], "tail")
		pos++
	}
}
