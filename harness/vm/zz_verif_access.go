//go:build verif

package vm

// Read-only accessors for the verification harnesses.

func countContexts(c *context) int {
	n := 0
	c.children.ForEach(func(_ uint64, ch *context) bool {
		n += 1 + countContexts(ch)
		return true
	})
	return n
}

// VerifLiveContexts is the number of iterator contexts registered under the main context.
func (vm *Type) VerifLiveContexts() int { return countContexts(vm.main) }

// VerifIP is the main context's instruction pointer.
func (vm *Type) VerifIP() int { return vm.main.ip }
