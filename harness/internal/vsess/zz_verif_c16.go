//go:build verif

package vsess

import (
	"io"

	"github.com/paulsonkoly/calc/internal/vrt"
	"github.com/paulsonkoly/calc/types/node"
)

// Harness for C16, part 1: the script/REPL loop hands the parser exactly the top-level statements
// of the text (a line, or a multi-line block, array literal or string), whatever braces, brackets,
// quotes or semicolons occur inside string literals and comments, and whether or not the file ends
// with a newline. The parser is replaced by a recorder; the expected chunks come from a splitter
// that tracks strings, comments and nesting the way the lexer does.

type recParser struct{ got []string }

func (r *recParser) Parse(s string) ([]node.Type, node.ParserError) {
	r.got = append(r.got, s)
	return nil, nil
}

var c16Alphabet = [...]string{"a", "{", "}", "[", "]", "\"", ";", "\\"}

// refSplit: statements end at a line break outside strings with all braces/brackets closed;
// a comment runs from ; (outside a string) to the end of the line.
func refSplit(lines []string) []string {
	var out []string
	cur, sep := "", ""
	blocks, brackets, inStr := 0, 0, false
	for _, ln := range lines {
		comment := false
		for i := 0; i < len(ln); i++ {
			c := ln[i]
			switch {
			case comment:
			case inStr:
				if c == '\\' && i+1 < len(ln) {
					i++
				} else if c == '"' {
					inStr = false
				}
			case c == '"':
				inStr = true
			case c == '\\':
				vrt.Assume(false) // a backslash outside a string literal is not in the language's alphabet
			case c == ';':
				comment = true
			case c == '{':
				blocks++
			case c == '[':
				brackets++
			case c == '}':
				blocks--
			case c == ']':
				brackets--
			}
			// a closer without its opener is a syntax error; what the loop does with the rest of
			// such a script is not described
			vrt.Assume(blocks >= 0 && brackets >= 0)
		}
		cur += sep + ln
		sep = "\n"
		if blocks == 0 && brackets == 0 && !inStr {
			out = append(out, cur)
			cur, sep = "", ""
		}
	}
	return out
}

func VerifC16Split() {
	nl := 1 + vrt.Choice("lines", vrt.Param("maxlines", 2))
	var lines []string
	for i := 0; i < nl; i++ {
		n := vrt.Choice("len", vrt.Param("maxlen", 3)+1)
		ln := ""
		for k := 0; k < n; k++ {
			ln += c16Alphabet[vrt.Choice("char", len(c16Alphabet))]
		}
		lines = append(lines, ln)
	}
	file := vrt.Bool("file-mode")
	finalNewline := vrt.Bool("final-newline")
	if file && !finalNewline && lines[len(lines)-1] == "" {
		// an empty last line without terminator is no line at all: the file ends with the
		// terminator of the line before
		lines = lines[:len(lines)-1]
		finalNewline = true
	}
	if len(lines) == 0 {
		return
	}
	want := refSplit(lines)
	// unbalanced closers make the counters negative: what the loop does then is not described
	for _, w := range want {
		_ = w
	}
	depth := 0
	for _, ln := range lines {
		for i := 0; i < len(ln); i++ {
			if ln[i] == '}' || ln[i] == ']' {
				depth--
			}
			if ln[i] == '{' || ln[i] == '[' {
				depth++
			}
		}
	}
	rd := &node.VerifLines{}
	for i, ln := range lines {
		text, err := ln, error(nil)
		if file {
			if i < len(lines)-1 || finalNewline {
				text += "\n"
			} else {
				err = io.EOF // ReadString returns the unterminated last line together with io.EOF
			}
		}
		rd.Lines = append(rd.Lines, text)
		rd.Errs = append(rd.Errs, err)
	}
	rd.Errs = append(rd.Errs, io.EOF)
	rec := &recParser{}
	s := New()
	node.VerifLoop(rd, rec, s.VM, !file)
	// compare chunks (the file reader keeps the line terminators: they are not part of the comparison)
	strip := func(x string) string {
		o := ""
		for i := 0; i < len(x); i++ {
			if x[i] != '\n' {
				o += x[i : i+1]
			}
		}
		return o
	}
	vrt.Note("lines", lines[0])
	vrt.Assert(len(rec.got) == len(want), "number-of-statements-handed-to-the-parser")
	for i := range want {
		if i < len(rec.got) {
			vrt.Assert(strip(rec.got[i]) == strip(want[i]), "statement-text-handed-to-the-parser")
		}
	}
	vrt.Cover("done")
}
