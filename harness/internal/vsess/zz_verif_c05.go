//go:build verif

package vsess

import (
	"strconv"

	"github.com/paulsonkoly/calc/internal/vrt"
	"github.com/paulsonkoly/calc/types/node"
	"github.com/paulsonkoly/calc/types/value"
)

func nm(s string) node.Type { return node.Name(s) }
func fn(body node.Type, params ...string) node.Type {
	ps := make([]node.Type, 0, len(params))
	for _, p := range params {
		ps = append(ps, node.Name(p))
	}
	return node.Function{Parameters: node.List{Elems: ps}, Body: body}
}
func call(f string, args ...node.Type) node.Type {
	return node.Call{Name: node.Name(f), Arguments: node.List{Elems: args}}
}
func blk(b ...node.Type) node.Type            { return node.Block{Body: b} }
func asg(v string, e node.Type) node.Type     { return node.Assign{VarRef: node.Name(v), Value: e} }
func bin(op string, l, r node.Type) node.Type { return node.BinOp{Op: op, Left: l, Right: r} }

// Embeddings of an expression e into statement positions. Each returns the program (one top-level
// statement) and whether it is run in REPL mode (result used) or script mode (result discarded).
const NCtx = 16

func Embed(ctx int, e node.Type) (prog node.Type, used bool) {
	cnt := func(body node.Type) node.Type { // i = 0; while i < 2 { body; i = i + 1 }
		return blk(asg("i", node.Int(0)), node.While{Condition: bin("<", nm("i"), node.Int(2)), Body: blk(body, asg("i", bin("+", nm("i"), node.Int(1))))})
	}
	switch ctx {
	case 0:
		return e, true
	case 1:
		return e, false
	case 2:
		return blk(asg("t", e), nm("t")), true
	case 3: // function tail
		return blk(asg("f", fn(e)), call("f")), true
	case 4: // function, not tail
		return blk(asg("f", fn(blk(asg("t", e), nm("t")))), call("f")), true
	case 5: // mid-block (discarded) and last
		return blk(e, node.Int(1)), true
	case 6:
		return blk(node.Int(1), e), false
	case 7: // if branch, used
		return node.IfElse{Condition: node.Bool(true), TrueCase: e, FalseCase: node.Int(0)}, true
	case 8: // if without else, discarded
		return node.If{Condition: node.Bool(true), TrueCase: e}, false
	case 9: // loop body, discarded loop
		return cnt(e), false
	case 10: // loop body value used (pushing while)
		return blk(asg("i", node.Int(0)), node.While{Condition: bin("<", nm("i"), node.Int(2)), Body: blk(asg("i", bin("+", nm("i"), node.Int(1))), e)}), true
	case 11: // for body
		return node.For{VarRefs: node.List{Elems: []node.Type{nm("k")}}, Iterators: node.List{Elems: []node.Type{call("fromto", node.Int(0), node.Int(2))}}, Body: e}, true
	case 12: // explicit return from a function
		return blk(asg("f", fn(blk(node.Return{Target: e}, node.Int(0)))), call("f")), true
	case 13: // inside a function with a parameter, as operand of the parameter
		return blk(asg("f", fn(bin("&", e, nm("n")), "n")), call("f", node.Int(1))), true
	case 14: // yielded from a generator
		return blk(asg("gen", fn(node.Yield{Target: e})),
			node.For{VarRefs: node.List{Elems: []node.Type{nm("k")}}, Iterators: node.List{Elems: []node.Type{call("gen")}}, Body: nm("k")}), true
	default: // top-level return
		return node.Return{Target: e}, true
	}
}

func c05Expr(g *Gen, stmt bool) node.Type {
	fam := vrt.Choice("family", 5)
	vrt.Assume(stmt || fam != 4)
	if f := vrt.Param("fam", -1); f >= 0 {
		vrt.Assume(fam == f)
	}
	vrt.Assume(fam >= vrt.Param("fam_lo", 0))
	switch fam {
	case 0:
		return g.Expr(vrt.Param("budget", 2))
	case 1:
		return g.Sandwich()
	case 2:
		return g.Chain(vrt.Param("chain", 3))
	case 3:
		return g.Same(1)
	default:
		// statement-valued forms used as expressions
		c := g.Leaf()
		return node.IfElse{Condition: c, TrueCase: g.Expr(1), FalseCase: g.Leaf()}
	}
}

func (s *Session) RunPre(g *Gen) {
	for _, d := range g.Pre {
		if _, err := s.Run(d, false); err != nil {
			vrt.Fail("helper definition failed")
		}
	}
}

// StmtCtx reports whether embedding ctx puts e in a statement position (where if/while/for may stand).
func StmtCtx(ctx int) bool {
	switch ctx {
	case 0, 1, 3, 5, 6, 7, 8, 9, 10, 11:
		return true
	}
	return false
}

// VerifC05Expr: for every generated expression in every embedding, compilation completes and
// execution ends with a value or a documented runtime error; no Go panic path is feasible and
// the run terminates (instruction budget). Afterwards the session still evaluates.
func VerifC05Expr() {
	s := New()
	g := NewGen(s)
	ctx := vrt.Choice("ctx", vrt.Param("nctx", NCtx))
	if vrt.Param("ctx3", 0) == 1 {
		// the three embeddings that differ in every code-generation flag: used, discarded, function tail
		vrt.Assume(ctx < 3)
		ctx = [...]int{0, 1, 3}[ctx]
	}
	if c := vrt.Param("ctx", -1); c >= 0 {
		vrt.Assume(ctx == c)
	}
	e := c05Expr(g, StmtCtx(ctx))
	prog, used := Embed(ctx, e)
	vrt.Note("program", Src(prog))
	s.RunPre(g)
	_, err := s.Run(prog, used)
	c := Class(err)
	vrt.Assert(c != EOther, "outcome-is-value-or-documented-error")
	if c == OK {
		vrt.Cover("value")
	} else {
		vrt.Cover("runtime-error")
	}
	v, err2 := s.Run(bin("+", node.Int(1), node.Int(1)), true)
	two, ok := v.ToInt()
	vrt.Assert(err2 == nil && ok && two == 2, "session-usable-afterwards")
	_ = value.Nil
}

// ---------- statement shapes ----------

// Stmt builds a statement tree of depth d. Loops terminate by construction: `while` is either
// counted, never entered, or has a body that returns.
func (g *Gen) Stmt(d int) node.Type {
	leaf := func() node.Type {
		if vrt.Bool("stmt-leaf-poly") {
			return g.poly(0)
		}
		return node.Int(vrt.Int("lit"))
	}
	if d <= 0 {
		switch vrt.Choice("stmt0", 4) {
		case 0:
			return leaf()
		case 1:
			return asg("x", leaf())
		case 2:
			return node.Return{Target: leaf()}
		default:
			return node.Yield{Target: leaf()}
		}
	}
	cond := func() node.Type {
		switch vrt.Choice("cond", 4) {
		case 0:
			return node.Bool(vrt.Bool("cond-lit"))
		case 1:
			return node.UnOp{Op: "!", Target: node.Bool(vrt.Bool("cond-lit"))}
		case 2:
			return node.UnOp{Op: "!", Target: g.poly(1)}
		default:
			return g.poly(1)
		}
	}
	zip := func(n1, n2 int, body node.Type) node.Type {
		return node.For{VarRefs: node.List{Elems: []node.Type{nm("k"), nm("l")}},
			Iterators: node.List{Elems: []node.Type{call("fromto", node.Int(0), node.Int(n1)), call("fromto", node.Int(0), node.Int(n2))}}, Body: body}
	}
	switch vrt.Choice("stmt", 10) {
	case 8: // lock-step loop, first iterator exhausted first
		return zip(1, 2, g.Stmt(d-1))
	case 9: // lock-step loop, second iterator exhausted first
		return zip(2, 1, g.Stmt(d-1))
	case 0:
		return g.Stmt(0)
	case 1:
		return node.If{Condition: cond(), TrueCase: g.Stmt(d - 1)}
	case 2:
		return node.IfElse{Condition: cond(), TrueCase: g.Stmt(d - 1), FalseCase: g.Stmt(d - 1)}
	case 3: // counted loop, value of the body is the value of the loop
		return blk(asg("w", node.Int(0)), node.While{Condition: bin("<", nm("w"), node.Int(2)), Body: blk(asg("w", bin("+", nm("w"), node.Int(1))), g.Stmt(d-1))})
	case 4: // loop left by return (condition of any kind, plain or negated)
		return node.While{Condition: cond(), Body: node.Return{Target: leaf()}}
	case 5:
		return node.While{Condition: node.Bool(false), Body: g.Stmt(d - 1)}
	case 6:
		return node.For{VarRefs: node.List{Elems: []node.Type{nm("k")}}, Iterators: node.List{Elems: []node.Type{call("fromto", node.Int(0), node.Int(2))}}, Body: g.Stmt(d - 1)}
	default:
		return blk(g.Stmt(d-1), g.Stmt(d-1))
	}
}

// StmtEmbed puts a statement into the positions that select different code generation.
const NStmtCtx = 8

func StmtEmbed(ctx int, st node.Type) (node.Type, bool) {
	switch ctx {
	case 0:
		return st, true
	case 1:
		return st, false
	case 2: // function body (tail position: returning)
		return blk(asg("f", fn(st)), call("f")), true
	case 3: // function body, not tail
		return blk(asg("f", fn(blk(st, node.Int(0)))), call("f")), true
	case 4: // function result discarded
		return blk(asg("f", fn(st)), call("f"), node.Int(0)), false
	case 5: // body of a for loop over a generator, at top level
		return node.For{VarRefs: node.List{Elems: []node.Type{nm("j")}}, Iterators: node.List{Elems: []node.Type{call("fromto", node.Int(0), node.Int(2))}}, Body: st}, true
	case 6: // generator body consumed by a loop
		return blk(asg("gen", fn(st)), node.For{VarRefs: node.List{Elems: []node.Type{nm("j")}}, Iterators: node.List{Elems: []node.Type{call("gen")}}, Body: nm("j")}), true
	default: // in a function called from a loop body inside another function
		return blk(asg("f", fn(st)), asg("h", fn(node.For{VarRefs: node.List{Elems: []node.Type{nm("j")}}, Iterators: node.List{Elems: []node.Type{call("fromto", node.Int(0), node.Int(2))}}, Body: call("f")})), call("h")), true
	}
}

// VerifC05Stmt: statement forms in every body position.
func VerifC05Stmt() {
	s := New()
	g := NewGen(s)
	st := g.Stmt(vrt.Param("sdepth", 2))
	prog, used := StmtEmbed(vrt.Choice("sctx", NStmtCtx), st)
	vrt.Note("program", Src(prog))
	_, err := s.Run(prog, used)
	c := Class(err)
	vrt.Assert(c != EOther, "outcome-is-value-or-documented-error")
	if c == OK {
		vrt.Cover("value")
	} else {
		vrt.Cover("runtime-error")
	}
	v, err2 := s.Run(bin("+", node.Int(1), node.Int(1)), true)
	two, ok := v.ToInt()
	vrt.Assert(err2 == nil && ok && two == 2, "session-usable-afterwards")
}

// VerifC05Lists: operators over array literals and array-valued sub-expressions in both operands.
func VerifC05Lists() {
	s := New()
	g := NewGen(s)
	k := func() node.Type { return node.Int(vrt.Int("lit")) }
	lst := func() node.Type {
		switch vrt.Choice("list", 4) {
		case 0:
			return node.List{Elems: []node.Type{k()}}
		case 1:
			return node.List{Elems: []node.Type{k(), bin("+", k(), k())}}
		case 2:
			return bin("+", node.List{Elems: []node.Type{k()}}, node.List{Elems: []node.Type{k()}})
		default:
			return g.arrGlobal()
		}
	}
	same := vrt.Bool("same")
	l := lst()
	r := l
	if !same {
		r = lst()
	}
	ops := [...]string{"+", "==", "!=", "-", "<"}
	e := bin(ops[vrt.Choice("op", len(ops))], l, r)
	if vrt.Bool("nested") {
		e = bin(ops[vrt.Choice("op2", len(ops))], e, lst())
	}
	ctx := vrt.Choice("ctx", 3)
	prog, used := Embed([...]int{0, 1, 3}[ctx], e)
	vrt.Note("program", Src(prog))
	_, err := s.Run(prog, used)
	vrt.Assert(Class(err) != EOther, "outcome-is-value-or-documented-error")
	vrt.Cover("done")
}

// VerifC05Wide: functions with many local variables (frame widths crossing the allocation
// boundaries), called at top level, recursively and from a generator.
func VerifC05Wide() {
	s := New()
	sizes := [...]int{1, 127, 128, 129, 200, 256, 300}
	n := sizes[vrt.Choice("locals", vrt.Param("widesizes", len(sizes)))]
	body := make([]node.Type, 0, n+2)
	for i := 0; i < n; i++ {
		body = append(body, asg("v"+strconv.Itoa(i), node.Int(vrt.Int("lit"))))
	}
	last := "v" + strconv.Itoa(n-1)
	var prog node.Type
	switch vrt.Choice("shape", 3) {
	case 0:
		body = append(body, nm(last))
		prog = blk(asg("f", fn(blk(body...))), call("f"))
	case 1: // recursion: the wide frame is pushed twice
		body = append(body, node.IfElse{Condition: bin("<", nm("d"), node.Int(1)), TrueCase: call("f", bin("+", nm("d"), node.Int(1))), FalseCase: nm(last)})
		prog = blk(asg("f", fn(blk(body...), "d")), call("f", node.Int(0)))
	default: // a generator with a wide frame, consumed by a loop
		body = append(body, node.Yield{Target: nm(last)}, node.Yield{Target: nm("v0")})
		prog = blk(asg("f", fn(blk(body...))), node.For{VarRefs: node.List{Elems: []node.Type{nm("k")}}, Iterators: node.List{Elems: []node.Type{call("f")}}, Body: nm("k")})
	}
	_, err := s.Run(prog, true)
	vrt.Assert(Class(err) == OK, "wide-function-runs")
	vrt.Cover("done")
}

// VerifC05Cross: no pairing of operand classes crashes the interpreter (operands symbolic: zero
// divisors, out-of-range indices and shift counts are models the solver must exclude).
func VerifC05Cross() {
	s := New()
	g := NewGen(s)
	a, b, op := g.Cross()
	prog, used := Embed([...]int{0, 3, 2}[vrt.Choice("ctx", 3)], bin(op, a, b))
	vrt.Note("program", Src(prog))
	s.RunPre(g)
	_, err := s.Run(prog, used)
	c := Class(err)
	vrt.Assert(c != EOther, "outcome-is-value-or-documented-error")
	if c == OK {
		vrt.Cover("value")
	} else {
		vrt.Cover("runtime-error")
	}
}

// StmtLean builds statement trees of depth d whose conditions are boolean literals and whose
// leaves are a literal, an assignment, a return and a yield: no solver work per shape, so the
// nesting can go one level deeper than Stmt. With narrow set, two-sided forms (if/else, blocks)
// take a deep subtree on one side and a leaf on the other.
func (g *Gen) StmtLean(d int, narrow bool) node.Type {
	leaf := func() node.Type {
		switch vrt.Choice("lean-leaf", 4) {
		case 0:
			return node.Int(vrt.Int("lit"))
		case 1:
			return asg("x", node.Int(vrt.Int("lit")))
		case 2:
			return node.Return{Target: node.Int(vrt.Int("lit"))}
		default:
			return node.Yield{Target: node.Int(vrt.Int("lit"))}
		}
	}
	if d <= 0 {
		return leaf()
	}
	cond := func() node.Type { return node.Bool(vrt.Bool("lean-cond")) }
	pair := func() (node.Type, node.Type) {
		if !narrow || d == 1 {
			return g.StmtLean(d-1, narrow), g.StmtLean(d-1, narrow)
		}
		if vrt.Bool("deep-side-first") {
			return g.StmtLean(d-1, narrow), leaf()
		}
		return leaf(), g.StmtLean(d-1, narrow)
	}
	switch vrt.Choice("lean-stmt", 8) {
	case 0:
		return leaf()
	case 1:
		return node.If{Condition: cond(), TrueCase: g.StmtLean(d-1, narrow)}
	case 2:
		a, b := pair()
		return node.IfElse{Condition: cond(), TrueCase: a, FalseCase: b}
	case 3: // counted loop
		return blk(asg("w", node.Int(0)), node.While{Condition: bin("<", nm("w"), node.Int(2)), Body: blk(asg("w", bin("+", nm("w"), node.Int(1))), g.StmtLean(d-1, narrow))})
	case 4: // loop that is never entered / left at once
		return node.While{Condition: cond(), Body: blk(g.StmtLean(d-1, narrow), node.Return{Target: node.Int(vrt.Int("lit"))})}
	case 5:
		return node.For{VarRefs: node.List{Elems: []node.Type{nm("k")}}, Iterators: node.List{Elems: []node.Type{call("fromto", node.Int(0), node.Int(2))}}, Body: g.StmtLean(d-1, narrow)}
	case 6:
		return node.For{VarRefs: node.List{Elems: []node.Type{nm("k"), nm("l")}},
			Iterators: node.List{Elems: []node.Type{call("fromto", node.Int(0), node.Int(2)), call("fromto", node.Int(0), node.Int(1))}}, Body: g.StmtLean(d-1, narrow)}
	default:
		a, b := pair()
		return blk(a, b)
	}
}

// VerifC05Nest: statement nests one level deeper than VerifC05Stmt (lean leaves and conditions) in
// every body position: no crash, and the machine is idle afterwards.
func VerifC05Nest() {
	s := New()
	g := NewGen(s)
	st := g.StmtLean(vrt.Param("leandepth", 2), vrt.Param("narrow", 1) == 1)
	prog, used := StmtEmbed(vrt.Choice("sctx", NStmtCtx), st)
	vrt.Note("program", Src(prog))
	_, err := s.Run(prog, used)
	c := Class(err)
	vrt.Assert(c != EOther, "outcome-is-value-or-documented-error")
	s.c09Clean("after-statement")
	v, err2 := s.Run(bin("+", node.Int(1), node.Int(1)), true)
	two, ok := v.ToInt()
	vrt.Assert(err2 == nil && ok && two == 2, "session-usable-afterwards")
	vrt.Cover("done")
}

// VerifC05AfterError: a statement fails with a documented error while calls are active; later
// statements that create closures and grow the operand stack neither crash nor misbehave.
func VerifC05AfterError() {
	s := New()
	g := NewGen(s)
	_ = g
	defs := []node.Type{
		asg("dive", fn(node.IfElse{Condition: bin(">", nm("d"), ilit(0)), TrueCase: bin("+", call("dive", bin("-", nm("d"), ilit(1))), ilit(1)), FalseCase: ilit(0)}, "d")),
		asg("bad", fn(node.IfElse{Condition: bin(">", nm("d"), ilit(0)), TrueCase: bin("+", call("bad", bin("-", nm("d"), ilit(1))), ilit(1)), FalseCase: bin("/", ilit(1), ilit(0))}, "d")),
		asg("mkc", fn(blk(asg("y", nm("n")), asg("g", fn(nm("y"))), asg("dd", call("dive", nm("k"))), asg("y", bin("*", nm("n"), ilit(10))), node.List{Elems: []node.Type{call("g"), nm("y")}}), "n", "k")),
		asg("rec", fn(node.IfElse{Condition: bin(">", nm("d"), ilit(0)), TrueCase: blk(asg("h", fn(bin("+", nm("d"), nm("q")), "q")), bin("+", call("rec", bin("-", nm("d"), ilit(1))), call("h", ilit(1)))), FalseCase: ilit(0)}, "d")),
	}
	for _, d := range defs {
		s.Run(d, false)
	}
	depth := vrt.Choice("error-depth", 4)
	for k := vrt.Choice("failures", 2); k >= 0; k-- {
		_, err := s.Run(call("bad", ilit(depth)), true)
		vrt.Assert(Class(err) == EZeroDiv, "documented-error")
	}
	var prog node.Type
	if vrt.Bool("recursive-closure-maker") {
		prog = call("rec", ilit(vrt.Param("recdepth", 40)))
	} else {
		prog = call("mkc", lit(), ilit(vrt.Param("dive", 140)))
	}
	_, err := s.Run(prog, true)
	vrt.Assert(Class(err) == OK, "valid-program-runs-after-an-error")
	s.c09Clean("after-valid-program")
	vrt.Cover("done")
}
