//go:build verif

// Package vsess is the session driver shared by the interpreter-level harnesses: exactly what
// cmd/calc and the repository's TestCalc do (memory.New, empty segments, builtin.Load, vm.New;
// then per statement STRewrite -> ByteCode/ByteCodeNoStck -> vm.Run).
package vsess

import (
	"strings"

	"github.com/paulsonkoly/calc/builtin"
	"github.com/paulsonkoly/calc/internal/vrt"
	"github.com/paulsonkoly/calc/memory"
	"github.com/paulsonkoly/calc/types/bytecode"
	"github.com/paulsonkoly/calc/types/compresult"
	"github.com/paulsonkoly/calc/types/dbginfo"
	"github.com/paulsonkoly/calc/types/node"
	"github.com/paulsonkoly/calc/types/value"
	"github.com/paulsonkoly/calc/vm"
)

type Session struct {
	M   *memory.Type
	CS  *[]bytecode.Type
	DS  *[]value.Type
	Dbg *dbginfo.Type
	CR  compresult.Type
	VM  *vm.Type
}

func New() *Session {
	m := memory.New()
	cs := []bytecode.Type{}
	ds := []value.Type{}
	dbg := make(dbginfo.Type)
	cr := compresult.Type{CS: &cs, DS: &ds, Dbg: &dbg}
	builtin.Load(cr)
	s := &Session{M: m, CS: &cs, DS: &ds, Dbg: &dbg, CR: cr}
	s.VM = vm.New(m, cr)
	// run the built-in definitions (as the first statement of a real session would)
	if _, err := s.VM.Run(false); err != nil {
		vrt.Fail("built-ins failed to load")
	}
	return s
}

// Error classes of the language.
const (
	OK = iota
	ENil
	EType
	EZeroDiv
	EIndex
	EArity
	EConv
	ERead
	EOther
)

func Class(err error) int {
	switch err {
	case nil:
		return OK
	case value.ErrNil:
		return ENil
	case value.ErrType:
		return EType
	case value.ErrZeroDiv:
		return EZeroDiv
	case value.ErrIndex:
		return EIndex
	case vm.ErrArity:
		return EArity
	case vm.ErrConversion:
		return EConv
	}
	if strings.HasPrefix(err.Error(), "read error") {
		return ERead
	}
	return EOther
}

// Run compiles and runs one top-level statement the way the REPL (used) or a script (discarded) does.
func (s *Session) Run(n node.Type, used bool) (value.Type, error) {
	n = n.STRewrite(node.SymTbl{})
	if used {
		node.ByteCode(n, s.CR)
	} else {
		node.ByteCodeNoStck(n, s.CR)
	}
	return s.VM.Run(used)
}

// Clean reports the residue left in the machine: operand stack, call frames, closure frames,
// live iterator contexts, and whether the main instruction pointer is at the end of the code.
func (s *Session) Clean() (sp, frames, closures, contexts int, ipAtEnd bool) {
	return s.M.VerifSP(), s.M.VerifFrames(), s.M.VerifClosures(), s.VM.VerifLiveContexts(), s.VM.VerifIP() == len(*s.CS)
}
