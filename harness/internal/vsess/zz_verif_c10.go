//go:build verif

package vsess

import (
	"github.com/paulsonkoly/calc/internal/vrt"
	"github.com/paulsonkoly/calc/types/node"
)

// Harness for C10 (values are immutable): solver-chosen sequences of array/string operations over
// a few variables that share structure (slices of slices, concatenations of slices with spare
// capacity, literals with constant prefixes evaluated repeatedly, arrays captured by closures).
// After every operation every variable is printed on both sides: a variable that was not assigned
// must still print as before, which the reference (which never shares storage) guarantees.

func lst(es ...node.Type) node.Type { return node.List{Elems: es} }

func VerifC10Ops() {
	p := NewPair()
	vars := [...]string{"va", "vb", "vc"}
	nv := vrt.Param("vars", 2)
	pickv := func(l string) string { return vars[vrt.Choice(l, nv)] }
	x := lit()
	p.steps("setup", false,
		asg("mk3", fn(lst(ilit(1), ilit(2), ilit(3), nm("x")), "x")), // constant prefix of 3, then computed
		asg("mk5", fn(lst(ilit(1), ilit(2), ilit(3), ilit(4), ilit(5), nm("x")), "x")),
		asg("comp", fn(lst(nm("x"), bin("+", nm("x"), ilit(1)), bin("+", nm("x"), ilit(2))), "x")), // all computed
		asg("cap", fn(blk(asg("l", lst(nm("x"), ilit(7), ilit(8))), fn(bin("+", nm("l"), lst(nm("q"))), "q")), "x")),
		asg("va", bin("+", lst(lit(), lit(), lit()), lst(lit(), lit()))), // a concatenation result (spare capacity)
		asg("vb", call("comp", x)),
		asg("vc", node.String("abcde")),
		asg("cl", call("cap", lit())))
	k := vrt.Param("ops", 3)
	for i := 0; i < k; i++ {
		var op node.Type
		switch vrt.Choice("op", 8) {
		case 0: // extend by a literal
			op = asg(pickv("dst"), bin("+", nm(pickv("src")), lst(lit())))
		case 1: // slice
			op = asg(pickv("dst"), node.IndexFromTo{Ary: nm(pickv("src")), From: node.Int(vrt.Range("from", 0, 3)), To: node.Int(vrt.Range("to", 0, 5))})
		case 2: // concatenate two variables
			op = asg(pickv("dst"), bin("+", nm(pickv("src")), nm(pickv("src2"))))
		case 3: // a literal with a constant prefix, evaluated again
			if vrt.Bool("five") {
				op = asg(pickv("dst"), call("mk5", lit()))
			} else {
				op = asg(pickv("dst"), call("mk3", lit()))
			}
		case 4: // a literal of computed elements
			op = asg(pickv("dst"), call("comp", lit()))
		case 5: // an array captured by a closure, extended
			op = asg(pickv("dst"), call("cl", lit()))
		case 6: // element of a nested literal
			op = asg(pickv("dst"), lst(nm(pickv("src")), lit()))
		default: // iterate (elements handed to a loop body that builds another array)
			op = blk(asg("acc", lst()), forl("e", call("elems", nm(pickv("src"))), asg("acc", bin("+", nm("acc"), lst(nm("e"))))), asg(pickv("dst"), nm("acc")))
		}
		vrt.Note("op", Src(op))
		p.Step(op, false, "operation")
		for j := 0; j < nv; j++ {
			p.Step(call("toa", nm(vars[j])), true, "variable-still-prints-the-same")
		}
	}
	// literals of the program text evaluate to the same value every time
	p.Step(lst(call("mk3", ilit(0)), call("mk3", ilit(0)), call("mk5", ilit(0))), true, "literal-evaluates-the-same")
	p.Step(call("cl", ilit(0)), true, "captured-array-unchanged")
	vrt.Cover("done")
}
