//go:build verif

package vsess

import (
	"math"
	"strconv"

	"github.com/paulsonkoly/calc/internal/vrt"
	"github.com/paulsonkoly/calc/types/node"
	"github.com/paulsonkoly/calc/types/value"
)

// Program generator: syntax trees built from solver choices. Shapes are chosen by vrt.Choice
// (the engine forks per feasible choice); literal payloads and the kinds/payloads of the preset
// global variables stay symbolic, so one explored shape stands for all values.

var AllBinOps = [...]string{"+", "-", "*", "/", "%", "&", "|", "&&", "||", "<", "<=", ">", ">=", "==", "!=", "<<", ">>"}
var RepBinOps = [...]string{"+", "<<", "/", "%", "-", "&", "<", "=="} // one per VM dispatch group (+ a non-commutative one)
var UnOps = [...]string{"-", "#", "!", "~"}

type Gen struct {
	S       *Session
	Ops     []string
	Leaves  int  // how many leaf kinds are enabled (see Leaf)
	InFunc  bool // generating inside a function body: parameters n, m are available
	polySet [3]bool
	strSet  bool
	arrSet  bool
	fnSet   bool
	Pre     []node.Type // definitions to run before the program (functions)
	Mirror  *Session    // second session receiving the same preset globals (twin comparisons)
	Ref     *REval      // reference evaluator receiving the same preset globals
}

func (g *Gen) setGlobal(name string, v value.Type) {
	g.S.M.SetGlobal(name, v)
	if g.Mirror != nil {
		g.Mirror.M.SetGlobal(name, v)
	}
	if g.Ref != nil {
		g.Ref.glob[name] = FromValue(v)
	}
}

func NewGen(s *Session) *Gen {
	g := &Gen{S: s, Leaves: vrt.Param("leaves", 5)}
	if vrt.Param("allops", 0) == 1 {
		g.Ops = AllBinOps[:]
	} else {
		g.Ops = RepBinOps[:vrt.Param("nops", len(RepBinOps))]
	}
	return g
}

func (g *Gen) op() string { return g.Ops[vrt.Choice("binop", len(g.Ops))] }

// poly makes sure global p<k> holds an arbitrary scalar of symbolic kind and returns its name node.
func (g *Gen) poly(k int) node.Type {
	name := "p" + strconv.Itoa(k)
	if !g.polySet[k] {
		g.polySet[k] = true
		g.setGlobal(name, value.VerifPoly(name))
	}
	return node.Name(name)
}

func (g *Gen) strGlobal() node.Type {
	if !g.strSet {
		g.strSet = true
		g.setGlobal("s", value.NewString(vrt.Bytes("s", vrt.Choice("s.len", 3))))
	}
	return node.Name("s")
}

func (g *Gen) arrGlobal() node.Type {
	if !g.arrSet {
		g.arrSet = true
		n := vrt.Choice("a.len", 3)
		a := make([]value.Type, 0, n)
		for i := 0; i < n; i++ {
			a = append(a, value.NewInt(vrt.Int("a.elem")))
		}
		g.setGlobal("a", value.NewArray(a))
	}
	return node.Name("a")
}

// Leaf kinds: 0 symbolic int literal, 1..2 preset scalar globals of symbolic kind, 3 string global,
// 4 array global, 5 bool literal, 6 float literal, 7 string literal, 8 constant array literal,
// 9 function parameter (inside functions)
func (g *Gen) Leaf() node.Type {
	n := g.Leaves
	k := vrt.Choice("leaf", n)
	switch k {
	case 0:
		return node.Int(vrt.Int("lit"))
	case 1:
		return g.poly(0)
	case 2:
		return g.poly(1)
	case 3:
		return g.strGlobal()
	case 4:
		return g.arrGlobal()
	case 5:
		return node.Bool(vrt.Bool("blit"))
	case 6:
		return node.Float(math.Float64frombits(vrt.Uint64("flit")))
	case 7:
		return node.String(vrt.Bytes("slit", vrt.Choice("slit.len", 2)))
	case 8:
		return node.List{Elems: []node.Type{node.Int(vrt.Int("lit")), node.Int(vrt.Int("lit"))}}
	default:
		vrt.Assume(g.InFunc)
		return node.Name("n")
	}
}

// funcs defines the helper functions used by Call forms: id (identity), inc (n+1), two (a,b)->a-b.
func (g *Gen) funcs() {
	if g.fnSet {
		return
	}
	g.fnSet = true
	n, a, b := node.Name("n"), node.Name("a"), node.Name("b")
	g.Pre = append(g.Pre,
		node.Assign{VarRef: node.Name("id"), Value: node.Function{Parameters: node.List{Elems: []node.Type{n}}, Body: n}},
		node.Assign{VarRef: node.Name("inc"), Value: node.Function{Parameters: node.List{Elems: []node.Type{n}}, Body: node.BinOp{Op: "+", Left: n, Right: node.Int(1)}}},
		node.Assign{VarRef: node.Name("two"), Value: node.Function{Parameters: node.List{Elems: []node.Type{a, b}}, Body: node.BinOp{Op: "-", Left: node.BinOp{Op: "*", Left: a, Right: node.Int(2)}, Right: b}}},
	)
}

// wrap puts e into one of the non-operator expression positions.
// 0 a[e]  1 e[k]  2 a[e:k]  3 a[k:e]  4 e[k:k]  5 id(e)  6 [e]  7 [k, e]  8 -e  9 #e  10 !e  11 ~e  12 two(k, e)
const NWraps = 13

func (g *Gen) Wrap(w int, e node.Type) node.Type {
	k := func() node.Type { return node.Int(vrt.Int("lit")) }
	switch w {
	case 0:
		return node.IndexAt{Ary: g.arrGlobal(), At: e}
	case 1:
		return node.IndexAt{Ary: e, At: k()}
	case 2:
		return node.IndexFromTo{Ary: g.arrGlobal(), From: e, To: k()}
	case 3:
		return node.IndexFromTo{Ary: g.strGlobal(), From: k(), To: e}
	case 4:
		return node.IndexFromTo{Ary: e, From: k(), To: k()}
	case 5:
		g.funcs()
		return node.Call{Name: node.Name("id"), Arguments: node.List{Elems: []node.Type{e}}}
	case 6:
		return node.List{Elems: []node.Type{e}}
	case 7:
		return node.List{Elems: []node.Type{k(), e}}
	case 8, 9, 10, 11:
		return node.UnOp{Op: UnOps[w-8], Target: e}
	default:
		g.funcs()
		return node.Call{Name: node.Name("two"), Arguments: node.List{Elems: []node.Type{k(), e}}}
	}
}

// Expr builds an expression with at most b operator/wrapper nodes.
func (g *Gen) Expr(b int) node.Type {
	if b <= 0 {
		return g.Leaf()
	}
	switch vrt.Choice("form", 3) {
	case 0:
		return g.Leaf()
	case 1:
		lb := vrt.Choice("split", b) // budget of the left operand
		return node.BinOp{Op: g.op(), Left: g.Expr(lb), Right: g.Expr(b - 1 - lb)}
	default:
		return g.Wrap(vrt.Choice("wrap", NWraps), g.Expr(b-1))
	}
}

// Sandwich builds op1( W( op2(l,l) ), l ) or op1( l, W( op2(l,l) ) ): an operator inside a
// non-operator position inside an operator — the shapes where the temp-register strategy of the
// compiler meets operands that cannot come from the temp register.
func (g *Gen) Sandwich() node.Type {
	var inner node.Type
	if vrt.Param("sandwich_leaves", 0) == 1 {
		inner = node.BinOp{Op: g.op(), Left: g.Leaf(), Right: g.Leaf()}
	} else {
		inner = node.BinOp{Op: g.op(), Left: node.Int(vrt.Int("lit")), Right: node.Int(vrt.Int("lit"))}
	}
	mid := g.Wrap(vrt.Choice("wrap", NWraps), inner)
	if vrt.Bool("inner-left") {
		return node.BinOp{Op: g.op(), Left: mid, Right: g.Leaf()}
	}
	return node.BinOp{Op: g.op(), Left: g.Leaf(), Right: mid}
}

// DeepOperand builds (l op l) op W1(W2(x)): a doubly wrapped operand (for instance a call inside
// an index) on the right of an operator whose left operand is itself an operation, so that a
// partial result is live while the wrapped operand is evaluated.
func (g *Gen) DeepOperand() node.Type {
	mid := g.DeepMid()
	left := node.BinOp{Op: g.op(), Left: g.Leaf(), Right: g.Leaf()}
	return node.BinOp{Op: g.op(), Left: left, Right: mid}
}

// DeepMid builds W1(W2(x)) with W2 a call and W1 any non-call position.
func (g *Gen) DeepMid() node.Type {
	var x node.Type = node.Int(vrt.Int("lit"))
	if vrt.Bool("inner-op") {
		x = node.BinOp{Op: g.op(), Left: x, Right: node.Int(vrt.Int("lit"))}
	}
	calls := [...]int{5, 12} // id(e), two(k, e)
	mid := g.Wrap(calls[vrt.Choice("wrap-call", 2)], x)
	outerW := [...]int{0, 6, 7, 8, 4, 3, 2, 1, 9} // a[e], [e], [k, e], -e, e[k:k], s[k:e], a[e:k], e[k], #e
	mid = g.Wrap(outerW[vrt.Choice("wrap-outer", len(outerW))], mid)
	if vrt.Bool("length-of") {
		mid = node.UnOp{Op: "#", Target: mid}
	}
	return mid
}

// fixedContainers binds a (2 ints) and s (2 bytes) so that index positions do not fork on lengths.
func (g *Gen) fixedContainers() {
	if !g.arrSet {
		g.arrSet = true
		g.setGlobal("a", value.NewArray([]value.Type{value.NewInt(vrt.Int("a.elem")), value.NewInt(vrt.Int("a.elem"))}))
	}
	if !g.strSet {
		g.strSet = true
		g.setGlobal("s", value.NewString(vrt.Bytes("s", 2)))
	}
}

// crossWraps: a[e], s[k:e], id(e), [k, e], -e, a[e:k], #[e]
var crossWraps = [...]int{0, 3, 5, 7, 8, 2, 6}

// Operand builds an operand of class c over symbolic int literals:
// 0 l   1 W(l)   2 l op l   3 W(l op l)   4 (l op l) op l   5 W((l op l) op l)   6 l op (l op l)
const NOperandClasses = 7

func (g *Gen) Operand(c int) node.Type {
	l := func() node.Type { return node.Int(vrt.Int("lit")) }
	iop := func() string { return g.Ops[vrt.Choice("inner-op", vrt.Param("innerops", 2))] }
	w := func(e node.Type) node.Type {
		return g.Wrap(crossWraps[vrt.Choice("cross-wrap", vrt.Param("crosswraps", len(crossWraps)))], e)
	}
	switch c {
	case 0:
		return l()
	case 1:
		return w(l())
	case 2:
		return node.BinOp{Op: iop(), Left: l(), Right: l()}
	case 3:
		return w(node.BinOp{Op: iop(), Left: l(), Right: l()})
	case 4:
		return node.BinOp{Op: iop(), Left: node.BinOp{Op: iop(), Left: l(), Right: l()}, Right: l()}
	case 5:
		return w(node.BinOp{Op: iop(), Left: node.BinOp{Op: iop(), Left: l(), Right: l()}, Right: l()})
	default:
		return node.BinOp{Op: iop(), Left: l(), Right: node.BinOp{Op: iop(), Left: l(), Right: l()}}
	}
}

// Cross builds A op B with both operands from every operand class: the temp-register and
// operand-stack strategies of the compiler meet every pairing of plain, wrapped (indexed, sliced,
// passed to a call, array element, negated) and compound operands.
func (g *Gen) Cross() (a, b node.Type, op string) {
	g.fixedContainers()
	a = g.Operand(vrt.Choice("left-class", NOperandClasses))
	b = g.Operand(vrt.Choice("right-class", NOperandClasses))
	return a, b, g.op()
}

// Chain builds a left- or right-nested chain of k operators over leaves.
func (g *Gen) Chain(k int) node.Type {
	e := g.Leaf()
	left := vrt.Bool("left-nested")
	for i := 0; i < k; i++ {
		if left {
			e = node.BinOp{Op: g.op(), Left: e, Right: g.Leaf()}
		} else {
			e = node.BinOp{Op: g.op(), Left: g.Leaf(), Right: e}
		}
	}
	return e
}

// Tree builds any binary operator tree with exactly k operators over symbolic int literals
// (all Catalan shapes, chosen by the solver).
func (g *Gen) Tree(k int) node.Type {
	if k == 0 {
		return node.Int(vrt.Int("lit"))
	}
	l := vrt.Choice("tree-left", k) // operators in the left subtree
	return node.BinOp{Op: g.op(), Left: g.Tree(l), Right: g.Tree(k - 1 - l)}
}

// Same builds `e op e` with syntactically identical operands (common-subexpression path).
func (g *Gen) Same(b int) node.Type {
	e := g.Expr(b)
	return node.BinOp{Op: g.op(), Left: e, Right: e}
}

// ---------- printer (documented surface syntax; used for samples and reports) ----------

func prec(op string) int {
	switch op {
	case "&&", "||":
		return 0
	case "<", ">", "<=", ">=", "==", "!=":
		return 1
	case "&", "|":
		return 2
	case "+", "-":
		return 3
	}
	return 4
}

func list(es []node.Type) string {
	s := ""
	for i, e := range es {
		if i > 0 {
			s += ", "
		}
		s += Src(e)
	}
	return s
}

func atomic(n node.Type) string {
	switch n.(type) {
	case node.BinOp, node.UnOp, node.Function:
		return "(" + Src(n) + ")"
	}
	return Src(n)
}

// Src renders a tree as source text.
func Src(n node.Type) string {
	switch x := n.(type) {
	case node.Int:
		return strconv.Itoa(int(x))
	case node.Float:
		return strconv.FormatFloat(float64(x), 'f', -1, 64)
	case node.Bool:
		if bool(x) {
			return "true"
		}
		return "false"
	case node.String:
		return "\"" + string(x) + "\""
	case node.Name:
		return string(x)
	case node.Local:
		return x.VarName
	case node.Closure:
		return x.VarName
	case node.List:
		return "[" + list(x.Elems) + "]"
	case node.BinOp:
		l, r := Src(x.Left), Src(x.Right)
		if lb, ok := x.Left.(node.BinOp); ok && prec(lb.Op) < prec(x.Op) {
			l = "(" + l + ")"
		}
		if rb, ok := x.Right.(node.BinOp); ok && prec(rb.Op) <= prec(x.Op) {
			r = "(" + r + ")"
		}
		return l + " " + x.Op + " " + r
	case node.UnOp:
		return x.Op + atomic(x.Target)
	case node.IndexAt:
		return atomic(x.Ary) + "[" + Src(x.At) + "]"
	case node.IndexFromTo:
		return atomic(x.Ary) + "[" + Src(x.From) + ":" + Src(x.To) + "]"
	case node.Call:
		return Src(x.Name) + "(" + list(x.Arguments.Elems) + ")"
	case node.Function:
		return "(" + list(x.Parameters.Elems) + ") -> " + Src(x.Body)
	case node.Assign:
		return Src(x.VarRef) + " = " + Src(x.Value)
	case node.If:
		return "if " + Src(x.Condition) + " " + Src(x.TrueCase)
	case node.IfElse:
		return "if " + Src(x.Condition) + " " + Src(x.TrueCase) + " else " + Src(x.FalseCase)
	case node.While:
		return "while " + Src(x.Condition) + " " + Src(x.Body)
	case node.For:
		return "for " + list(x.VarRefs.Elems) + " <- " + list(x.Iterators.Elems) + " " + Src(x.Body)
	case node.Return:
		return "return " + Src(x.Target)
	case node.Yield:
		return "yield " + Src(x.Target)
	case node.Block:
		s := "{\n"
		for _, b := range x.Body {
			s += Src(b) + "\n"
		}
		return s + "}"
	case node.Read:
		return "read()"
	case node.Write:
		return "write(" + Src(x.Value) + ")"
	case node.Aton:
		return "aton(" + Src(x.Value) + ")"
	case node.Toa:
		return "toa(" + Src(x.Value) + ")"
	}
	return "?"
}
