//go:build verif

package vsess

import (
	"github.com/paulsonkoly/calc/internal/vrt"
	"github.com/paulsonkoly/calc/types/node"
)

// VerifSoup: sequences of small idioms ("gadgets") run inside ONE statement, so that generator
// contexts are recycled between them, stacks grow in the middle, closures outlive the calls and
// loops that made them, and functions that return out of loops are called before and inside other
// loops. Every gadget appends what it observes to acc; the final acc is compared with the
// reference evaluator. The sequence runs at top level, inside a function, or inside a function
// reached by recursion. Literal values are symbolic.

const NGadgets = 16

func soupDefs(p *Pair) {
	p.genDefs()
	p.steps("soup-defs", false,
		// an untraced counter: lock-step loops over generators with output have no documented interleaving
		asg("cn", fn(blk(asg("i", ilit(0)), whilel(bin("<", nm("i"), nm("n")), blk(yld(nm("i")), asg("i", bin("+", nm("i"), ilit(1)))))), "n")),
		asg("cntwo", lam(call("cn", ilit(2)))),
		asg("dive", fn(node.IfElse{Condition: bin(">", nm("d"), ilit(0)), TrueCase: bin("+", call("dive", bin("-", nm("d"), ilit(1))), ilit(1)), FalseCase: ilit(0)}, "d")),
		asg("find", fn(blk(forl("i", call("fromto", ilit(0), ilit(5)), ifs(bin("==", nm("i"), nm("n")), ret(bin("*", nm("i"), ilit(10))))), ilit(-1)), "n")),
		asg("mk", fn(fn(bin("+", nm("n"), nm("q")), "q"), "n")),
		asg("mkg", fn(blk(asg("y", nm("n")), asg("g", fn(bin("+", nm("y"), nm("q")), "q")), asg("dd", call("dive", ilit(vrt.Param("gendive", 100)))), asg("y", bin("*", nm("n"), ilit(2))), yld(nm("g")), asg("y", bin("+", nm("y"), ilit(1))), yld(nm("g"))), "n")),
		asg("gf", fn(blk(yld(call("find", ilit(1))), yld(call("find", nm("n"))), yld(call("find", ilit(9)))), "n")),
		asg("mkr", fn(lam(blk(asg("s", node.List{}), forl("i", call("fromto", ilit(0), nm("n")), asg("s", bin("+", nm("s"), node.List{Elems: []node.Type{nm("i")}}))), nm("s"))), "n")),
		asg("ca", call("mkr", ilit(2))),
		asg("cb", call("mkr", ilit(3))),
		asg("firstof", fn(blk(forl("e", call("cn", nm("n")), ret(nm("e"))), ilit(-1)), "n")),
		asg("firstclo", fn(blk(forl("h", call("mkg", nm("n")), ret(nm("h"))), ilit(0)), "n")),
		asg("firstcomp", fn(blk(forl("e", call("map", nm("inc"), nm("cntwo")), ret(nm("e"))), ilit(-1)))),
		asg("upd", fn(blk(asg("y", nm("n")), asg("g", lam(nm("y"))), asg("dd", call("dive", nm("d"))), asg("y", bin("+", nm("n"), ilit(1))), node.List{Elems: []node.Type{call("g"), nm("g")}}), "n", "d")),
	)
}

func push(es ...node.Type) node.Type { return asg("acc", bin("+", nm("acc"), node.List{Elems: es})) }

func gadget(k int) node.Type {
	switch k {
	case 0: // loop over a user generator
		return forl("e", call("cn", ilit(2)), push(nm("e")))
	case 1: // a function that returns out of its loop after some rounds
		return push(call("find", ilit(1+vrt.Choice("find-rounds", 2))))
	case 2: // a closure made and called
		return blk(asg("c", call("mk", lit())), push(call("c", lit())))
	case 3: // deep recursion: the operand stack grows
		return push(call("dive", ilit(vrt.Param("dive", 140))))
	case 4: // three iterators in lock step
		return node.For{VarRefs: node.List{Elems: []node.Type{nm("a"), nm("b"), nm("c")}},
			Iterators: node.List{Elems: []node.Type{call("fromto", ilit(0), ilit(2)), call("cn", ilit(3)), call("elems", node.List{Elems: []node.Type{lit(), lit()}})}},
			Body:      push(node.List{Elems: []node.Type{nm("a"), nm("b"), nm("c")}})}
	case 5: // closures made by a generator across the growth of its own stack, kept after the loop
		return blk(forl("h", call("mkg", lit()), blk(push(call("h", ilit(1))), asg("kept", nm("h")))), push(call("kept", ilit(2))))
	case 6: // a generator that calls the returning search
		return forl("e", call("gf", ilit(2)), push(nm("e")))
	case 7: // nested loops
		return forl("a", call("two"), forl("b", call("cn", ilit(2)), push(node.List{Elems: []node.Type{nm("a"), nm("b")}})))
	case 8: // loops inside closure instances whose iterator reads a captured variable
		return push(call("ca"), call("cb"), call("ca"))
	case 9: // a generator abandoned by a return out of the consuming loop
		return push(call("firstof", ilit(3)))
	case 10: // arrays as values: two extensions of a concatenation result
		return blk(asg("x", bin("+", bin("+", litArr(2), litArr(2)), litArr(1))), asg("y", bin("+", bin("+", nm("x"), litArr(1)), litArr(1))), asg("z", bin("+", bin("+", nm("x"), litArr(1)), litArr(1))), push(nm("y"), nm("z"), nm("x")))
	case 11: // composed generators
		return forl("e", call("map", nm("inc"), lam(call("filt", nm("pos"), nm("cntwo")))), push(nm("e")))
	case 14: // a closure that escapes from a generator abandoned while suspended
		return blk(asg("kept", call("firstclo", lit())), push(call("kept", ilit(1))))
	case 15: // a generator built from another generator, abandoned by a return in the loop body
		return push(call("firstcomp"))
	case 13: // a loop whose body calls the returning search, the first call searching several rounds
		return forl("k", call("fromto", ilit(2), ilit(4)), push(nm("k"), call("find", nm("k"))))
	default: // a closure that must see its definer's update made after a deep call; then kept and called later
		return blk(asg("pr", call("upd", lit(), ilit(vrt.Param("dive", 140)))), push(node.IndexAt{Ary: nm("pr"), At: ilit(0)}), asg("kf", node.IndexAt{Ary: nm("pr"), At: ilit(1)}), push(call("kf")))
	}
}

func VerifSoup() {
	p := NewPair()
	soupDefs(p)
	n := vrt.Param("gadgets", 2)
	ng := vrt.Param("ngadgets", NGadgets)
	body := []node.Type{asg("acc", node.List{})}
	keeps := false
	for i := 0; i < n; i++ {
		k := vrt.Choice("gadget", ng)
		if k == 5 || k == 14 {
			keeps = true
		}
		body = append(body, gadget(k))
	}
	if keeps {
		// the kept closure still reads its own captured variable after whatever ran since
		body = append(body, push(call("kept", ilit(3))))
	}
	body = append(body, nm("acc"))
	var prog node.Type
	switch vrt.Choice("placement", 3) {
	case 0:
		prog = blk(body...)
	case 1:
		prog = blk(asg("run", fn(blk(body...))), call("run"))
	default: // reached through a recursion of depth 3: other calls are active below
		prog = blk(asg("run", fn(node.IfElse{Condition: bin(">", nm("d"), ilit(0)), TrueCase: call("run", bin("-", nm("d"), ilit(1))), FalseCase: blk(body...)}, "d")), call("run", ilit(3)))
	}
	vrt.Note("program", Src(prog))
	p.Step(prog, true, "gadget-sequence")
	// a following statement: closures kept in globals (placement 0) are still what they were
	after := [...]int{2, 5, 12, 0}
	p.Step(blk(asg("acc", node.List{}), gadget(after[vrt.Choice("gadget-after", len(after))]), nm("acc")), true, "next-statement")
	vrt.Cover("done")
}
