//go:build verif

package vsess

import (
	"github.com/paulsonkoly/calc/internal/vrt"
	"github.com/paulsonkoly/calc/types/node"
)

// Harnesses for C02 (for loops consume exactly what their iterators yield, lazily and in order)
// and C03 (functions are pure), compared with the reference evaluator statement by statement.
// Generators write trace marks, so the interleaving of generator and loop body is part of the
// compared output.

func lam(body node.Type) node.Type { return fn(body) }
func str(s string) node.Type       { return node.String(s) }
func forl(v string, it node.Type, body node.Type) node.Type {
	return node.For{VarRefs: node.List{Elems: []node.Type{nm(v)}}, Iterators: node.List{Elems: []node.Type{it}}, Body: body}
}
func zipl(v1, v2 string, it1, it2 node.Type, body node.Type) node.Type {
	return node.For{VarRefs: node.List{Elems: []node.Type{nm(v1), nm(v2)}}, Iterators: node.List{Elems: []node.Type{it1, it2}}, Body: body}
}
func whilel(c node.Type, body node.Type) node.Type { return node.While{Condition: c, Body: body} }
func ifs(c, t node.Type) node.Type                 { return node.If{Condition: c, TrueCase: t} }
func yld(e node.Type) node.Type                    { return node.Yield{Target: e} }
func ret(e node.Type) node.Type                    { return node.Return{Target: e} }
func ilit(i int) node.Type                         { return node.Int(i) }

// genDefs defines the generator library on both sides.
func (p *Pair) genDefs() {
	a, b, c, k := lit(), lit(), lit(), lit()
	p.steps("defs", false,
		// traced counter: writes "c" before each yield and "e" when exhausted
		asg("cnt", fn(blk(asg("i", ilit(0)), whilel(bin("<", nm("i"), nm("n")), blk(call("write", str("c")), yld(nm("i")), asg("i", bin("+", nm("i"), ilit(1))))), call("write", str("e"))), "n")),
		asg("two", fn(blk(yld(a), yld(b)))),
		asg("cond", fn(blk(yld(ilit(1)), ifs(nm("c"), yld(ilit(2))), yld(ilit(3))), "c")),
		asg("rec", fn(ifs(bin(">", nm("n"), ilit(0)), blk(yld(nm("n")), call("rec", bin("-", nm("n"), ilit(1))))), "n")),
		asg("nest", fn(blk(call("two"), yld(c)))),
		asg("mk", fn(lam(blk(yld(nm("k")), yld(bin("+", nm("k"), ilit(1))))), "k")),
		asg("clo", call("mk", k)),
		asg("map", fn(forl("e", call("it"), yld(call("f", nm("e")))), "f", "it")),
		asg("filt", fn(forl("e", call("it"), ifs(call("p", nm("e")), yld(nm("e")))), "p", "it")),
		asg("chain", fn(blk(forl("e", call("a"), yld(nm("e"))), forl("e", call("b"), yld(nm("e")))), "a", "b")),
		asg("inc", fn(bin("+", nm("v"), ilit(1)), "v")),
		asg("pos", fn(bin(">", nm("v"), ilit(0)), "v")),
		asg("cnttwo", lam(call("cnt", ilit(2)))),
	)
}

const NIter = 14

// iter builds an iterator expression.
func iter(k int) node.Type {
	switch k {
	case 0:
		return call("cnt", ilit(2))
	case 1:
		return call("two")
	case 2:
		return call("cond", node.Bool(vrt.Bool("cond")))
	case 3:
		return call("rec", ilit(2))
	case 4:
		return call("nest")
	case 5:
		return call("clo")
	case 6:
		return call("map", nm("inc"), nm("two"))
	case 7:
		return call("filt", nm("pos"), nm("two"))
	case 8:
		return call("chain", nm("two"), nm("cnttwo"))
	case 9:
		return call("map", nm("inc"), lam(call("filt", nm("pos"), nm("cnttwo"))))
	case 10:
		return call("fromto", ilit(0), ilit(2))
	case 11:
		return call("elems", node.List{Elems: []node.Type{lit(), lit()}})
	case 12:
		return call("cnt", ilit(0)) // yields nothing
	default:
		return ilit(5) // not a generator at all
	}
}

func pureIter(k int) node.Type { // iterators without output, for lock-step loops
	switch k {
	case 0:
		return call("two")
	case 1:
		return call("rec", ilit(3))
	case 2:
		return call("fromto", ilit(0), ilit(1+vrt.Choice("zip.n", 3)))
	case 3:
		return call("map", nm("inc"), nm("two"))
	default:
		return call("elems", str("ab"))
	}
}

func VerifC02Loops() {
	p := NewPair()
	p.genDefs()
	it := iter(vrt.Choice("iter", vrt.Param("niter", NIter)))
	vrt.Note("iterator", Src(it))
	p.steps("init", false, asg("acc", node.List{}))
	switch vrt.Choice("consumer", 15) {
	case 14: // a generator built from generators is abandoned by a return; loops follow in the same statement
		zip3 := node.For{VarRefs: node.List{Elems: []node.Type{nm("a"), nm("b"), nm("c")}},
			Iterators: node.List{Elems: []node.Type{call("fromto", ilit(0), ilit(3)), call("fromto", ilit(10), ilit(13)), call("fromto", ilit(20), ilit(23))}},
			Body:      asg("r", bin("+", nm("r"), node.List{Elems: []node.Type{node.List{Elems: []node.Type{nm("a"), nm("b"), nm("c")}}}}))}
		p.steps("def", false, asg("firstof", fn(blk(forl("e", call("map", nm("inc"), lam(call("filt", nm("pos"), nm("two")))), ret(nm("e"))), forl("e", call("chain", nm("two"), nm("two")), ret(nm("e"))), ilit(-1)))))
		p.Step(blk(asg("r", node.List{}), asg("f1", call("firstof")), forl("e", it, call("write", nm("e"))), zip3, zip3, node.List{Elems: []node.Type{nm("f1"), nm("r")}}), true, "zips-after-abandoned-composed-generator")
	case 12: // a function that returns out of a loop after some rounds is called before a loop and
		// again in that loop's body, all in one statement
		rounds := vrt.Choice("rounds", 3)
		lo := vrt.Choice("first-searched", 3) // the search made in the first round of the loop runs lo+1 rounds itself
		p.steps("def", false,
			asg("find", fn(blk(forl("i", call("fromto", ilit(0), ilit(5)), ifs(bin("==", nm("i"), nm("n")), ret(bin("*", nm("i"), ilit(10))))), ilit(-1)), "n")),
			asg("find2", fn(blk(forl("i", call("fromto", ilit(0), ilit(3)), forl("j", call("two"), ifs(bin("==", nm("i"), nm("n")), ret(node.List{Elems: []node.Type{nm("i"), nm("j")}})))), ilit(-1)), "n")))
		fnd := "find"
		if vrt.Bool("nested-search") {
			fnd = "find2"
		}
		p.Step(blk(asg("first", call(fnd, ilit(rounds))), asg("r", node.List{}),
			forl("k", call("fromto", ilit(lo), ilit(lo+2)), asg("r", bin("+", nm("r"), node.List{Elems: []node.Type{node.List{Elems: []node.Type{nm("k"), call(fnd, nm("k"))}}}}))),
			forl("e", it, call("write", nm("e"))),
			node.List{Elems: []node.Type{nm("first"), nm("r"), call(fnd, ilit(rounds)), call(fnd, ilit(1))}}), true, "returning-search-before-and-inside-a-loop")
	case 13: // a generator that calls such a function, then loops zipping three generators
		p.steps("def", false,
			asg("find", fn(blk(forl("i", call("fromto", ilit(0), ilit(5)), ifs(bin("==", nm("i"), nm("n")), ret(bin("*", nm("i"), ilit(10))))), ilit(-1)), "n")),
			asg("gf", fn(blk(yld(call("find", ilit(1))), yld(call("find", nm("n"))), yld(call("find", ilit(9)))), "n")))
		zip3 := node.For{VarRefs: node.List{Elems: []node.Type{nm("a"), nm("b"), nm("c")}},
			Iterators: node.List{Elems: []node.Type{call("fromto", ilit(0), ilit(3)), call("fromto", ilit(10), ilit(13)), call("elems", node.List{Elems: []node.Type{lit(), lit(), lit()}})}},
			Body:      asg("r", bin("+", nm("r"), node.List{Elems: []node.Type{node.List{Elems: []node.Type{nm("a"), nm("b"), nm("c")}}}}))}
		var first node.Type = forl("e", call("gf", ilit(2)), asg("r", bin("+", nm("r"), node.List{Elems: []node.Type{nm("e")}})))
		if vrt.Bool("abandon-first") {
			first = asg("ab", fn(blk(forl("e", call("gf", ilit(2)), ifs(bin("==", nm("e"), ilit(20)), ret(nm("e")))), ilit(0))))
			first = blk(first, call("ab"))
		}
		p.Step(blk(asg("r", node.List{}), first, forl("e", it, call("write", nm("e"))), zip3, zip3, nm("r")), true, "three-way-zip-after-generator-with-returning-search")
	case 10: // loops inside closures whose iterator expression reads a captured variable; several
		// closure instances run in one statement, so their generator contexts are recycled
		p.steps("def", false,
			asg("mkr", fn(lam(blk(asg("s", node.List{}), forl("i", call("fromto", ilit(0), nm("n")), asg("s", bin("+", nm("s"), node.List{Elems: []node.Type{nm("i")}}))), nm("s"))), "n")),
			asg("ca", call("mkr", ilit(1+vrt.Choice("na", 3)))),
			asg("cb", call("mkr", ilit(vrt.Choice("nb", 3)))),
			asg("pl", fn(blk(asg("t", ilit(0)), forl("e", it, asg("t", bin("+", nm("t"), ilit(1)))), nm("t")))))
		elems := []node.Type{call("ca"), call("cb"), call("ca")}
		if vrt.Bool("plain-function-first") {
			elems = append([]node.Type{call("pl")}, elems...)
		}
		p.Step(node.List{Elems: elems}, true, "closure-loops-in-one-statement")
	case 11: // generators built by closures over a captured generator and function
		p.steps("def", false,
			asg("mg", fn(lam(forl("v", call("gen"), yld(call("f", nm("v"))))), "f", "gen")),
			asg("dbl", fn(bin("*", nm("v"), ilit(2)), "v")),
			asg("m1", call("mg", nm("inc"), nm("two"))),
			asg("m2", call("mg", nm("dbl"), nm("cnttwo"))))
		p.Step(blk(forl("e", call("m1"), call("write", nm("e"))), forl("e", it, call("write", nm("e"))), forl("e", call("m2"), call("write", nm("e"))), forl("e", call("m1"), call("write", nm("e")))), true, "captured-generators-in-one-statement")
	case 9: // a loop nested in the body of a lock-step loop
		p.Step(zipl("a", "b", pureIter(vrt.Choice("zip1", 5)), pureIter(vrt.Choice("zip2", 5)),
			forl("c", it, call("write", node.List{Elems: []node.Type{nm("a"), nm("b"), nm("c")}}))), true, "loop-inside-lock-step-loop")
	case 0:
		p.Step(forl("e", it, call("write", nm("e"))), true, "write-each")
	case 1:
		p.Step(forl("e", it, blk(call("write", str("b")), asg("acc", bin("+", nm("acc"), node.List{Elems: []node.Type{nm("e")}})))), false, "collect")
		p.Step(nm("acc"), true, "collected")
	case 2:
		it2 := iter(vrt.Choice("iter2", vrt.Param("niter2", 3)))
		p.Step(forl("a", it, forl("b", it2, call("write", node.List{Elems: []node.Type{nm("a"), nm("b")}}))), true, "nested")
	case 3:
		p.Step(zipl("a", "b", pureIter(vrt.Choice("zip1", 5)), pureIter(vrt.Choice("zip2", 5)), call("write", node.List{Elems: []node.Type{nm("a"), nm("b")}})), true, "lock-step")
	case 4: // return in the body abandons the generator
		p.steps("def", false, asg("f", fn(blk(forl("e", it, blk(call("write", nm("e")), ifs(bin("==", nm("e"), nm("x")), ret(bin("*", nm("e"), ilit(10)))))), ilit(0)), "x")))
		p.Step(call("f", lit()), true, "return-from-body")
		p.Step(forl("e", call("cnt", ilit(1)), call("write", nm("e"))), true, "loop-after-abandoned-generator")
	case 5: // the loop runs inside a function at recursion depth d
		d := vrt.Choice("depth", vrt.Param("maxdepth", 4))
		p.steps("def", false, asg("h", fn(node.IfElse{Condition: bin(">", nm("d"), ilit(0)), TrueCase: call("h", bin("-", nm("d"), ilit(1))),
			FalseCase: blk(asg("s", node.List{}), forl("e", it, asg("s", bin("+", nm("s"), node.List{Elems: []node.Type{nm("e")}}))), nm("s"))}, "d")))
		p.Step(call("h", ilit(d)), true, "loop-at-depth")
	case 6: // several loops in one statement (contexts are recycled)
		it2 := iter(vrt.Choice("iter2", vrt.Param("niter", NIter)))
		p.Step(blk(forl("e", it, call("write", nm("e"))), forl("e", it2, call("write", nm("e"))), forl("a", it, forl("b", call("two"), call("write", nm("b"))))), true, "loops-in-sequence")
	case 7: // the value of a loop
		p.Step(asg("r", forl("e", it, bin("*", nm("e"), ilit(2)))), true, "loop-value")
	default: // a yield with no enclosing loop only evaluates to its operand
		p.Step(yld(lit()), true, "naked-yield")
		p.Step(call("two"), true, "generator-called-without-loop")
	}
	vrt.Cover("done")
}

// ---------- C03 ----------

func VerifC03Pure() {
	p := NewPair()
	k := lit()
	var f node.Type
	fk := vrt.Choice("function", 10)
	switch fk {
	case 9: // a closure escapes from a generator that is abandoned while suspended; a loop follows
		// (its generator may take over the abandoned one's context); the closure is called before and after
		p.steps("define", false,
			asg("mkg2", fn(blk(asg("y", bin("*", nm("n"), ilit(3))), asg("g", fn(bin("+", nm("y"), nm("q")), "q")), yld(nm("g")), asg("y", ilit(0)), yld(nm("g"))), "n")),
			asg("firstclo", fn(blk(forl("h", call("mkg2", nm("n")), ret(nm("h"))), ilit(0)), "n")))
		f = fn(blk(asg("c", call("firstclo", nm("a"))), asg("v1", call("c", k)), asg("t", ilit(0)), forl("e", call("fromto", ilit(0), ilit(3)), asg("t", bin("+", nm("t"), nm("e")))), node.List{Elems: []node.Type{nm("v1"), call("c", k), nm("t")}}), "a")
	case 8: // a generator makes a closure, its own stack grows, it updates the captured variable and
		// yields the closure; the loop calls it
		p.steps("define", false,
			asg("dive", fn(node.IfElse{Condition: bin(">", nm("n"), ilit(0)), TrueCase: bin("+", call("dive", bin("-", nm("n"), ilit(1))), ilit(1)), FalseCase: ilit(0)}, "n")),
			asg("mkg", fn(blk(asg("y", nm("n")), asg("g", fn(bin("+", nm("y"), nm("q")), "q")), asg("dd", call("dive", ilit(vrt.Param("gendive", 100)))), asg("y", bin("*", nm("n"), ilit(2))), yld(nm("g"))), "n")))
		f = fn(blk(asg("r", ilit(0)), forl("h", call("mkg", nm("a")), asg("r", call("h", k))), nm("r")), "a")
	case 6: // nested loops
		f = fn(blk(asg("s", ilit(0)), forl("u", call("fromto", ilit(0), ilit(2)), forl("w", call("fromto", ilit(0), ilit(2)), asg("s", bin("+", nm("s"), nm("a"))))), nm("s")), "a")
	case 7: // a loop over a generator that loops over a generator
		p.genDefs()
		f = fn(blk(asg("s", ilit(0)), forl("e", call("filt", nm("pos"), lam(call("fromto", ilit(0), ilit(3)))), asg("s", bin("+", nm("s"), bin("*", nm("e"), nm("a"))))), nm("s")), "a")
	case 0:
		f = fn(bin("+", bin("*", nm("a"), ilit(2)), k), "a")
	case 1:
		f = fn(blk(asg("s", ilit(0)), forl("i", call("fromto", ilit(0), ilit(3)), asg("s", bin("+", nm("s"), bin("*", nm("i"), nm("a"))))), nm("s")), "a")
	case 2:
		f = fn(blk(asg("k", bin("+", nm("a"), ilit(1))), asg("g", fn(bin("+", nm("k"), nm("q")), "q")), call("g", k)), "a")
	case 3:
		f = fn(blk(asg("g", fn(bin("+", nm("a"), nm("q")), "q")), asg("a", bin("+", nm("a"), ilit(1))), asg("t", nm("g")), call("t", k)), "a")
	case 4:
		f = fn(blk(asg("r", node.List{}), asg("i", ilit(0)), whilel(bin("<", nm("i"), ilit(3)), blk(asg("r", bin("+", nm("r"), node.List{Elems: []node.Type{bin("+", nm("i"), nm("a"))}})), asg("i", bin("+", nm("i"), ilit(1))))), nm("r")), "a")
	default: // reads a local that may never have been assigned
		// six locals that stay unassigned unless a > k: a frame wide enough to be the first thing that
		// crosses an allocation boundary of the operand stack
		names := [...]string{"ua", "ub", "uc", "ud", "ue", "found"}
		var sets, reads []node.Type
		for _, n := range names {
			sets = append(sets, asg(n, nm("a")))
			reads = append(reads, nm(n))
		}
		f = fn(blk(ifs(bin(">", nm("a"), k), blk(sets...)), node.List{Elems: append(reads, nm("a"))}), "a")
	}
	vrt.Note("function", Src(f))
	arg := lit()
	p.steps("define", false, asg("f", f), asg("arg", arg))
	p.Step(call("f", nm("arg")), true, "first-call")
	// history
	switch vrt.Choice("history", 6) {
	case 0:
	case 1: // deep recursion: the stacks grow
		d := vrt.Param("dive", 140)
		p.steps("history", false, asg("dive", fn(node.IfElse{Condition: bin(">", nm("n"), ilit(0)), TrueCase: bin("+", call("dive", bin("-", nm("n"), ilit(1))), ilit(1)), FalseCase: ilit(0)}, "n")), call("dive", ilit(d)))
	case 2: // loops creating and recycling contexts at two levels
		p.genDefs()
		p.steps("history", false, blk(forl("u", call("map", nm("inc"), nm("two")), ilit(0)), forl("u", call("two"), forl("w", call("two"), ilit(0)))))
	case 3: // a failed statement
		p.Step(bin("/", ilit(1), ilit(0)), true, "history-error")
	case 4: // many plain calls
		p.steps("history", false, asg("plus", fn(bin("+", nm("u"), nm("w")), "u", "w")), call("plus", lit(), lit()), call("plus", lit(), lit()))
	default: // an abandoned generator
		p.genDefs()
		p.steps("history", false, asg("q", fn(blk(forl("e", call("cnt", ilit(3)), ret(nm("e"))), ilit(0)))), call("q"))
	}
	// the same call in different dynamic contexts
	switch vrt.Choice("placement", 8) {
	case 6: // after a sibling call at the same (deep) call depth: the frame reuses that call's cells
		d := vrt.Choice("call-depth", vrt.Param("sweepdepth", 130))
		vrt.Assume(fk == 5)
		p.steps("def", false, asg("plus", fn(bin("+", nm("u"), nm("w")), "u", "w")),
			asg("at", fn(node.IfElse{Condition: bin(">", nm("d"), ilit(0)), TrueCase: call("at", bin("-", nm("d"), ilit(1))),
				FalseCase: blk(call("plus", ilit(100), ilit(11)), call("f", nm("arg")))}, "d")))
		p.Step(call("at", ilit(d)), true, "after-sibling-call-at-depth")
	case 7: // in one array after other looping functions (contexts are recycled within the statement)
		p.genDefs()
		p.steps("def", false,
			asg("grid", fn(blk(asg("s", ilit(0)), forl("u", call("fromto", ilit(0), ilit(2)), forl("w", call("fromto", ilit(0), ilit(2)), asg("s", bin("+", nm("s"), ilit(1))))), nm("s")))),
			asg("sumev", fn(blk(asg("s", ilit(0)), forl("e", call("filt", nm("pos"), lam(call("fromto", ilit(0), ilit(4)))), asg("s", bin("+", nm("s"), nm("e")))), nm("s")))))
		first := "grid"
		if vrt.Bool("sumev-first") {
			first = "sumev"
		}
		p.Step(node.List{Elems: []node.Type{call(first), call("f", nm("arg")), call("grid"), call("f", nm("arg")), call("sumev")}}, true, "in-array-after-looping-calls")
	case 0:
		p.Step(call("f", nm("arg")), true, "call-again")
	case 1:
		p.Step(node.List{Elems: []node.Type{call("f", nm("arg")), call("f", nm("arg"))}}, true, "twice-in-one-array")
	case 2:
		p.Step(blk(forl("u", call("fromto", ilit(0), ilit(2)), asg("r", call("f", nm("arg")))), nm("r")), true, "in-loop-body")
	case 3:
		p.Step(blk(asg("gen", lam(blk(yld(call("f", nm("arg"))), yld(call("f", nm("arg")))))), asg("r", node.List{}), forl("v", call("gen"), asg("r", bin("+", nm("r"), node.List{Elems: []node.Type{nm("v")}}))), nm("r")), true, "in-generator")
	case 4:
		d := vrt.Choice("call-depth", vrt.Param("maxcalldepth", 3))
		p.steps("def", false, asg("at", fn(node.IfElse{Condition: bin(">", nm("d"), ilit(0)), TrueCase: call("at", bin("-", nm("d"), ilit(1))), FalseCase: call("f", nm("arg"))}, "d")))
		p.Step(call("at", ilit(d)), true, "at-call-depth")
	default:
		p.Step(blk(asg("i", ilit(0)), whilel(bin("<", nm("i"), ilit(2)), blk(asg("r", call("f", nm("arg"))), asg("i", bin("+", nm("i"), ilit(1))))), nm("r")), true, "in-while-body")
	}
	vrt.Cover("done")
}

// loopNest builds nested for loops: every loop zips 1..3 iterators of 1..2 elements, and the body
// of an outer loop holds the next level directly or inside a block / conditional / counted while,
// or twice in sequence. The innermost body records the loop variables of all levels.
func loopNest(level, max int, vars []string, userGen bool) node.Type {
	if level == max {
		l := node.List{}
		for _, v := range vars {
			l.Elems = append(l.Elems, nm(v))
		}
		return asg("acc", bin("+", nm("acc"), node.List{Elems: []node.Type{l}}))
	}
	ar := 1 + vrt.Choice("iterators", vrt.Param("zipmax", 3))
	f := node.For{}
	for i := 0; i < ar; i++ {
		v := string(rune('a'+level)) + string(rune('0'+i))
		vars = append(vars, v)
		f.VarRefs.Elems = append(f.VarRefs.Elems, nm(v))
		n := 2
		if i == ar-1 {
			n = 1 + vrt.Choice("elements-of-last", 2)
		}
		if userGen {
			f.Iterators.Elems = append(f.Iterators.Elems, call("cnt", ilit(n)))
		} else {
			f.Iterators.Elems = append(f.Iterators.Elems, call("fromto", ilit(0), ilit(n)))
		}
	}
	inner := loopNest(level+1, max, vars, userGen)
	if level == max-1 {
		f.Body = inner
		return f
	}
	switch vrt.Choice("placement", 5) {
	case 0:
		f.Body = inner
	case 1:
		f.Body = blk(asg("t", ilit(0)), inner)
	case 2:
		f.Body = node.If{Condition: node.Bool(true), TrueCase: inner}
	case 3:
		f.Body = blk(asg("w", ilit(0)), whilel(bin("<", nm("w"), ilit(1)), blk(asg("w", bin("+", nm("w"), ilit(1))), inner)))
	default:
		f.Body = blk(inner, inner)
	}
	return f
}

func loopNestProg() (defs []node.Type, prog node.Type) {
	nest := loopNest(0, 2+vrt.Choice("levels", vrt.Param("levels", 1)), nil, vrt.Bool("user-generator"))
	defs = []node.Type{asg("cnt", fn(blk(asg("i", ilit(0)), whilel(bin("<", nm("i"), nm("n")), blk(yld(nm("i")), asg("i", bin("+", nm("i"), ilit(1)))))), "n"))}
	if vrt.Bool("inside-function") {
		return defs, blk(asg("f", fn(blk(asg("acc", node.List{}), nest, nm("acc")))), call("f"))
	}
	return defs, blk(asg("acc", node.List{}), nest, nm("acc"))
}

// VerifC02LoopNest: nested and lock-step loops visit exactly the combinations the reference does.
func VerifC02LoopNest() {
	p := NewPair()
	defs, prog := loopNestProg()
	vrt.Note("program", Src(prog))
	p.steps("defs", false, defs...)
	p.Step(prog, true, "loop-nest")
	vrt.Cover("done")
}

// VerifC05LoopNest: no nesting of loops crashes the interpreter.
func VerifC05LoopNest() {
	s := New()
	defs, prog := loopNestProg()
	vrt.Note("program", Src(prog))
	for _, d := range defs {
		s.Run(d, false)
	}
	_, err := s.Run(prog, true)
	vrt.Assert(Class(err) != EOther, "outcome-is-value-or-documented-error")
	vrt.Cover("done")
}
