//go:build verif

package vsess

import (
	"fmt"
	"strconv"

	"github.com/paulsonkoly/calc/internal/vrt"
	"github.com/paulsonkoly/calc/types/node"
	"github.com/paulsonkoly/calc/types/value"
)

// Reference evaluator: a direct evaluator of the parsed tree by the rules of the language
// description (Readme): strict left-to-right evaluation, int->float promotion, the documented
// value of every statement form, the documented error classes, lexical scoping with one level
// of closure. It owns its value type and its operators (nothing of package value/vm/node's
// compiler is called), so defects of the implementation are not shared.

const (
	rNil = iota
	rInt
	rFloat
	rStr
	rArr
	rBool
	rFn
)

type RV struct {
	K  int
	I  int
	F  float64
	B  bool
	S  string
	A  []RV
	Fn *RFn
}

type RFn struct {
	params  []string
	body    *rn
	encl    *ract  // activation of the defining function (nil at top level)
	builtin string // non-empty for built-in functions
}

var RNil = RV{}

func RI(i int) RV     { return RV{K: rInt, I: i} }
func RB(b bool) RV    { return RV{K: rBool, B: b} }
func RS(s string) RV  { return RV{K: rStr, S: s} }
func RF(f float64) RV { return RV{K: rFloat, F: f} }
func RA(a []RV) RV    { return RV{K: rArr, A: a} }

// ---------- static resolution (own implementation of the documented scoping rule) ----------

const (
	sLocal = iota
	sClosure
	sGlobal
)

type rn struct {
	op     string
	i      int
	f      float64
	b      bool
	s      string
	kids   []*rn
	scope  int
	params []string
}

type rscope struct {
	names map[string]bool
}

// resolve converts a parsed tree; scopes is the stack of function scopes (empty at top level).
// A name is local from the point (in text order) where it is a parameter, assigned or bound by
// a for loop; before that it refers to the immediately enclosing function's variable of that
// name if there is one, else to the global.
func resolve(n node.Type, scopes []*rscope) *rn {
	lookup := func(name string) int {
		if k := len(scopes); k > 0 {
			if scopes[k-1].names[name] {
				return sLocal
			}
			if k > 1 && scopes[k-2].names[name] {
				return sClosure
			}
		}
		return sGlobal
	}
	declare := func(name string) int {
		if k := len(scopes); k > 0 {
			scopes[k-1].names[name] = true
			return sLocal
		}
		return sGlobal
	}
	sub := func(x node.Type) *rn { return resolve(x, scopes) }
	switch x := n.(type) {
	case node.Int:
		return &rn{op: "int", i: int(x)}
	case node.Float:
		return &rn{op: "float", f: float64(x)}
	case node.Bool:
		return &rn{op: "bool", b: bool(x)}
	case node.String:
		return &rn{op: "str", s: string(x)}
	case node.List:
		r := &rn{op: "list"}
		for _, e := range x.Elems {
			r.kids = append(r.kids, sub(e))
		}
		return r
	case node.Name:
		return &rn{op: "var", s: string(x), scope: lookup(string(x))}
	case node.BinOp:
		return &rn{op: "bin", s: x.Op, kids: []*rn{sub(x.Left), sub(x.Right)}}
	case node.UnOp:
		return &rn{op: "un", s: x.Op, kids: []*rn{sub(x.Target)}}
	case node.IndexAt:
		return &rn{op: "ix1", kids: []*rn{sub(x.Ary), sub(x.At)}}
	case node.IndexFromTo:
		return &rn{op: "ix2", kids: []*rn{sub(x.Ary), sub(x.From), sub(x.To)}}
	case node.Call:
		r := &rn{op: "call", kids: []*rn{sub(x.Name)}}
		for _, a := range x.Arguments.Elems {
			r.kids = append(r.kids, sub(a))
		}
		return r
	case node.Function:
		sc := &rscope{names: map[string]bool{}}
		r := &rn{op: "fn"}
		for _, p := range x.Parameters.Elems {
			name := string(p.(node.Name))
			sc.names[name] = true
			r.params = append(r.params, name)
		}
		r.kids = []*rn{resolve(x.Body, append(append([]*rscope{}, scopes...), sc))}
		return r
	case node.Assign:
		v := sub(x.Value) // the right-hand side is resolved before the variable is declared
		name := string(x.VarRef.(node.Name))
		return &rn{op: "assign", s: name, scope: declare(name), kids: []*rn{v}}
	case node.If:
		return &rn{op: "if", kids: []*rn{sub(x.Condition), sub(x.TrueCase)}}
	case node.IfElse:
		return &rn{op: "ifelse", kids: []*rn{sub(x.Condition), sub(x.TrueCase), sub(x.FalseCase)}}
	case node.While:
		return &rn{op: "while", kids: []*rn{sub(x.Condition), sub(x.Body)}}
	case node.For:
		r := &rn{op: "for"}
		var its []*rn
		for _, it := range x.Iterators.Elems {
			its = append(its, sub(it))
		}
		for _, v := range x.VarRefs.Elems {
			name := string(v.(node.Name))
			r.params = append(r.params, name)
			r.i = declare(name)
		}
		r.kids = append(its, sub(x.Body))
		return r
	case node.Return:
		return &rn{op: "ret", kids: []*rn{sub(x.Target)}}
	case node.Yield:
		return &rn{op: "yield", kids: []*rn{sub(x.Target)}}
	case node.Block:
		r := &rn{op: "block"}
		for _, b := range x.Body {
			r.kids = append(r.kids, sub(b))
		}
		return r
	}
	vrt.Fail("reference: unsupported node")
	return nil
}

// ---------- evaluation ----------

type ract struct {
	vars map[string]RV
	encl *ract
}

type rres struct {
	v   RV
	err int
	ret bool
}

type yielder struct {
	fn   func(RV) rres // runs the loop body for one yielded value; a result with ret/err stops
	stop *rres
}

type REval struct {
	glob map[string]RV
	out  string
	fuel int
}

func NewREval() *REval {
	ev := &REval{glob: map[string]RV{}, fuel: 4000}
	for _, b := range [...]string{"read", "write", "aton", "toa", "exit", "fromto", "elems", "indices"} {
		ev.glob[b] = RV{K: rFn, Fn: &RFn{builtin: b}}
	}
	return ev
}

func ok(v RV) rres    { return rres{v: v} }
func fail(e int) rres { return rres{err: e} }

// Run evaluates one top-level statement.
func (ev *REval) Run(n node.Type) (RV, int) {
	r := ev.eval(resolve(n, nil), nil, nil)
	return r.v, r.err
}

func (ev *REval) eval(n *rn, a *ract, yh *yielder) rres {
	ev.fuel--
	if ev.fuel < 0 {
		vrt.Assume(false) // the reference does not follow programs beyond its step budget
	}
	switch n.op {
	case "int":
		return ok(RI(n.i))
	case "float":
		return ok(RF(n.f))
	case "bool":
		return ok(RB(n.b))
	case "str":
		return ok(RS(n.s))
	case "list":
		out := make([]RV, 0, len(n.kids))
		for _, k := range n.kids {
			r := ev.eval(k, a, yh)
			if r.err != 0 || r.ret {
				return r
			}
			out = append(out, r.v)
		}
		return ok(RA(out))
	case "var":
		switch n.scope {
		case sLocal:
			return ok(a.vars[n.s])
		case sClosure:
			if a.encl != nil {
				return ok(a.encl.vars[n.s])
			}
			return ok(RNil)
		}
		return ok(ev.glob[n.s])
	case "bin":
		l := ev.eval(n.kids[0], a, yh)
		if l.err != 0 || l.ret {
			return l
		}
		r := ev.eval(n.kids[1], a, yh)
		if r.err != 0 || r.ret {
			return r
		}
		return rbin(n.s, l.v, r.v)
	case "un":
		x := ev.eval(n.kids[0], a, yh)
		if x.err != 0 || x.ret {
			return x
		}
		return run(n.s, x.v)
	case "ix1":
		c := ev.eval(n.kids[0], a, yh)
		if c.err != 0 || c.ret {
			return c
		}
		i := ev.eval(n.kids[1], a, yh)
		if i.err != 0 || i.ret {
			return i
		}
		return rindex(c.v, []RV{i.v})
	case "ix2":
		c := ev.eval(n.kids[0], a, yh)
		if c.err != 0 || c.ret {
			return c
		}
		i := ev.eval(n.kids[1], a, yh)
		if i.err != 0 || i.ret {
			return i
		}
		j := ev.eval(n.kids[2], a, yh)
		if j.err != 0 || j.ret {
			return j
		}
		return rindex(c.v, []RV{i.v, j.v})
	case "fn":
		return ok(RV{K: rFn, Fn: &RFn{params: n.params, body: n.kids[0], encl: a}})
	case "call":
		args := make([]RV, 0, len(n.kids)-1)
		for _, k := range n.kids[1:] {
			r := ev.eval(k, a, yh)
			if r.err != 0 || r.ret {
				return r
			}
			args = append(args, r.v)
		}
		f := ev.eval(n.kids[0], a, yh)
		if f.err != 0 {
			return f
		}
		return ev.call(f.v, args, yh)
	case "assign":
		r := ev.eval(n.kids[0], a, yh)
		if r.err != 0 || r.ret {
			return r
		}
		if r.v.K == rNil {
			return fail(ENil)
		}
		if n.scope == sLocal {
			a.vars[n.s] = r.v
		} else {
			ev.glob[n.s] = r.v
		}
		return ok(r.v)
	case "if", "ifelse":
		c := ev.evalCond(n.kids[0], a, yh)
		if c.err != 0 || c.ret {
			return c
		}
		if c.v.K != rBool {
			return fail(EType)
		}
		if c.v.B {
			return ev.eval(n.kids[1], a, yh)
		}
		if n.op == "ifelse" {
			return ev.eval(n.kids[2], a, yh)
		}
		return ok(RNil)
	case "while":
		last := RNil
		for {
			c := ev.evalCond(n.kids[0], a, yh)
			if c.err != 0 || c.ret {
				return c
			}
			if c.v.K != rBool {
				return fail(EType)
			}
			if !c.v.B {
				return ok(last)
			}
			b := ev.eval(n.kids[1], a, yh)
			if b.err != 0 || b.ret {
				return b
			}
			last = b.v
		}
	case "for":
		return ev.forLoop(n, a, yh)
	case "ret":
		r := ev.eval(n.kids[0], a, yh)
		if r.err != 0 {
			return r
		}
		r.ret = true
		return r
	case "yield":
		r := ev.eval(n.kids[0], a, yh)
		if r.err != 0 || r.ret {
			return r
		}
		if yh != nil {
			b := yh.fn(r.v)
			if b.err != 0 || b.ret {
				// the consuming loop stops (error or return in its body): unwind the generator
				yh.stop = &b
				return rres{v: b.v, err: b.err, ret: true}
			}
		}
		return ok(r.v)
	case "block":
		last := RNil
		for _, k := range n.kids {
			r := ev.eval(k, a, yh)
			if r.err != 0 || r.ret {
				return r
			}
			last = r.v
		}
		return ok(last)
	}
	vrt.Fail("reference: unsupported operation")
	return rres{}
}

// ENilOrType: the language description does not say whether an absent value used as a (negated)
// condition is a nil error or a type error; the reference accepts either.
const ENilOrType = 100

// SameClass compares an implementation error class with the reference's.
func SameClass(impl, ref int) bool {
	if ref == ENilOrType {
		return impl == ENil || impl == EType
	}
	return impl == ref
}

// evalCond evaluates the condition of if/while. `!x` with x absent: see ENilOrType.
func (ev *REval) evalCond(n *rn, a *ract, yh *yielder) rres {
	if n.op == "un" && n.s == "!" {
		x := ev.eval(n.kids[0], a, yh)
		if x.err != 0 || x.ret {
			return x
		}
		if x.v.K == rNil {
			return fail(ENilOrType)
		}
		return run("!", x.v)
	}
	c := ev.eval(n, a, yh)
	if c.err == 0 && !c.ret && c.v.K == rNil {
		return fail(ENilOrType)
	}
	return c
}

func bind(n *rn, a *ract, ev *REval, name string, v RV) {
	if n.i == sLocal {
		a.vars[name] = v
	} else {
		ev.glob[name] = v
	}
}

// forLoop: the body runs once per yielded value, before the generator is resumed. A single
// iterator is evaluated by internal iteration (the yield calls the body); several iterators are
// advanced in lock step, which the reference supports for generators without side effects by
// running each to completion first (stated restriction).
func (ev *REval) forLoop(n *rn, a *ract, outer *yielder) rres {
	nIt := len(n.kids) - 1
	body := n.kids[nIt]
	last := RNil
	if nIt == 1 {
		y := &yielder{}
		y.fn = func(v RV) rres {
			if v.K == rNil {
				return fail(ENil) // binding the loop variable is an assignment
			}
			bind(n, a, ev, n.params[0], v)
			b := ev.eval(body, a, outer)
			if b.err == 0 && !b.ret {
				last = b.v
			}
			return b
		}
		r := ev.eval(n.kids[0], a, y)
		if y.stop != nil {
			return *y.stop
		}
		if r.err != 0 {
			return r
		}
		// a return inside the iterator expression itself only ends that expression
		return ok(last)
	}
	lists := make([][]RV, nIt)
	for k := 0; k < nIt; k++ {
		y := &yielder{}
		kk := k
		y.fn = func(v RV) rres {
			lists[kk] = append(lists[kk], v)
			return ok(RNil)
		}
		r := ev.eval(n.kids[k], a, y)
		if r.err != 0 {
			return r
		}
	}
	for round := 0; ; round++ {
		for k := 0; k < nIt; k++ {
			if round >= len(lists[k]) {
				return ok(last)
			}
			if lists[k][round].K == rNil {
				return fail(ENil)
			}
			bind(n, a, ev, n.params[k], lists[k][round])
		}
		b := ev.eval(body, a, outer)
		if b.err != 0 || b.ret {
			return b
		}
		last = b.v
	}
}

func (ev *REval) call(f RV, args []RV, yh *yielder) rres {
	if f.K != rFn {
		return fail(EType)
	}
	fn := f.Fn
	if fn.builtin != "" {
		return ev.builtin(fn.builtin, args, yh)
	}
	if len(args) != len(fn.params) {
		return fail(EArity)
	}
	act := &ract{vars: map[string]RV{}, encl: fn.encl}
	for i, p := range fn.params {
		act.vars[p] = args[i]
	}
	r := ev.eval(fn.body, act, yh)
	if r.err != 0 {
		return r
	}
	if yh != nil && yh.stop != nil {
		return rres{v: r.v, ret: true} // keep unwinding towards the consuming loop
	}
	return ok(r.v)
}

func (ev *REval) builtin(name string, args []RV, yh *yielder) rres {
	arity := map[string]int{"read": 0, "write": 1, "aton": 1, "toa": 1, "exit": 1, "fromto": 2, "elems": 1, "indices": 1}[name]
	if len(args) != arity {
		return fail(EArity)
	}
	yield := func(v RV) (rres, bool) {
		if yh == nil {
			return rres{}, false
		}
		b := yh.fn(v)
		if b.err != 0 || b.ret {
			yh.stop = &b
			return rres{v: b.v, err: b.err, ret: true}, true
		}
		return rres{}, false
	}
	switch name {
	case "read":
		// the reference has no standard input: reading at its end is the read error
		return fail(ERead)
	case "write":
		ev.out += RStr(args[0])
		return ok(RNil)
	case "toa":
		return ok(RS(RStr(args[0])))
	case "aton":
		if args[0].K != rStr {
			return fail(EType)
		}
		if v, err := strconv.Atoi(args[0].S); err == nil {
			return ok(RI(v))
		}
		if v, err := strconv.ParseFloat(args[0].S, 64); err == nil {
			return ok(RF(v))
		}
		return fail(EConv)
	case "fromto":
		x, b := args[0], args[1]
		last := RNil
		for {
			c := rbin("<", x, b)
			if c.err != 0 {
				return c
			}
			if !c.v.B {
				return ok(last)
			}
			if r, stop := yield(x); stop {
				return r
			}
			nx := rbin("+", x, RI(1))
			if nx.err != 0 {
				return nx
			}
			x, last = nx.v, nx.v
			ev.fuel--
			if ev.fuel < 0 {
				vrt.Assume(false)
			}
		}
	case "elems", "indices":
		x := args[0]
		n := 0
		switch x.K {
		case rStr:
			n = len(x.S)
		case rArr:
			n = len(x.A)
		case rNil:
			return fail(ENil)
		default:
			return fail(EType)
		}
		last := RNil
		for i := 0; i < n; i++ {
			v := RI(i)
			if name == "elems" {
				v = rindex(x, []RV{RI(i)}).v // elems(x) yields x[i]
			}
			if r, stop := yield(v); stop {
				return r
			}
			last = RI(i + 1)
		}
		return ok(last)
	}
	vrt.Assume(false) // read and exit are outside the reference
	return rres{}
}

// ---------- operators ----------

func isNum(v RV) bool { return v.K == rInt || v.K == rFloat }
func asF(v RV) float64 {
	if v.K == rInt {
		return float64(v.I)
	}
	return v.F
}

func nilOrType(l, r RV) rres {
	if l.K == rNil || r.K == rNil {
		return fail(ENil)
	}
	return fail(EType)
}

func rbin(op string, l, r RV) rres {
	switch op {
	case "+", "-", "*", "/":
		if l.K == rInt && r.K == rInt {
			switch op {
			case "+":
				return ok(RI(l.I + r.I))
			case "-":
				return ok(RI(l.I - r.I))
			case "*":
				return ok(RI(l.I * r.I))
			}
			if r.I == 0 {
				return fail(EZeroDiv)
			}
			return ok(RI(l.I / r.I))
		}
		if isNum(l) && isNum(r) {
			x, y := asF(l), asF(r)
			switch op {
			case "+":
				return ok(RF(x + y))
			case "-":
				return ok(RF(x - y))
			case "*":
				return ok(RF(x * y))
			}
			return ok(RF(x / y))
		}
		if op == "+" && l.K == rStr && r.K == rStr {
			return ok(RS(l.S + r.S))
		}
		if op == "+" && l.K == rArr && r.K == rArr {
			out := make([]RV, 0, len(l.A)+len(r.A))
			out = append(append(out, l.A...), r.A...)
			return ok(RA(out))
		}
		return nilOrType(l, r)
	case "%":
		if l.K == rInt && r.K == rInt {
			if r.I == 0 {
				return fail(EZeroDiv)
			}
			return ok(RI(l.I % r.I))
		}
		return nilOrType(l, r)
	case "&", "&&", "|", "||":
		and := op == "&" || op == "&&"
		if l.K == rInt && r.K == rInt {
			if and {
				return ok(RI(l.I & r.I))
			}
			return ok(RI(l.I | r.I))
		}
		if l.K == rBool && r.K == rBool {
			if and {
				return ok(RB(l.B && r.B))
			}
			return ok(RB(l.B || r.B))
		}
		return nilOrType(l, r)
	case "<", "<=", ">", ">=":
		if l.K == rInt && r.K == rInt {
			switch op {
			case "<":
				return ok(RB(l.I < r.I))
			case "<=":
				return ok(RB(l.I <= r.I))
			case ">":
				return ok(RB(l.I > r.I))
			}
			return ok(RB(l.I >= r.I))
		}
		if isNum(l) && isNum(r) {
			x, y := asF(l), asF(r)
			switch op {
			case "<":
				return ok(RB(x < y))
			case "<=":
				return ok(RB(x <= y))
			case ">":
				return ok(RB(x > y))
			}
			return ok(RB(x >= y))
		}
		return nilOrType(l, r)
	case "==", "!=":
		eq, err := req(l, r)
		if err != 0 {
			return fail(err)
		}
		if op == "!=" {
			eq = !eq
		}
		return ok(RB(eq))
	case "<<", ">>":
		if l.K == rInt && r.K == rInt {
			// the language description does not say what counts outside 0..63 or a negative left
			// operand of >> mean: not followed by the reference
			vrt.Assume(r.I >= 0 && r.I < 64)
			if op == "<<" {
				return ok(RI(l.I << uint(r.I)))
			}
			vrt.Assume(l.I >= 0)
			return ok(RI(l.I >> uint(r.I)))
		}
		return nilOrType(l, r)
	}
	vrt.Fail("reference: unknown operator")
	return rres{}
}

func req(l, r RV) (bool, int) {
	if l.K == rNil || r.K == rNil {
		return false, ENil
	}
	if l.K == rInt && r.K == rInt {
		return l.I == r.I, 0
	}
	if isNum(l) && isNum(r) {
		return asF(l) == asF(r), 0
	}
	if l.K != r.K {
		return false, 0
	}
	switch l.K {
	case rBool:
		return l.B == r.B, 0
	case rStr:
		return l.S == r.S, 0
	case rArr:
		if len(l.A) != len(r.A) {
			return false, 0
		}
		for i := range l.A {
			e, err := req(l.A[i], r.A[i])
			if err != 0 {
				return false, err
			}
			if !e {
				return false, 0
			}
		}
		return true, 0
	}
	return false, 0 // functions are never equal
}

func run(op string, x RV) rres {
	switch op {
	case "-":
		if x.K == rInt {
			return ok(RI(-x.I))
		}
		if x.K == rFloat {
			return ok(RF(-1 * x.F))
		}
	case "#":
		if x.K == rStr {
			return ok(RI(len(x.S)))
		}
		if x.K == rArr {
			return ok(RI(len(x.A)))
		}
	case "!":
		if x.K == rBool {
			return ok(RB(!x.B))
		}
	case "~":
		if x.K == rInt {
			return ok(RI(^x.I))
		}
	}
	if x.K == rNil {
		return fail(ENil)
	}
	return fail(EType)
}

func rindex(c RV, ix []RV) rres {
	for _, i := range ix {
		if i.K == rNil {
			return fail(ENil)
		}
		if i.K != rInt {
			return fail(EType)
		}
	}
	n := 0
	switch c.K {
	case rStr:
		n = len(c.S)
	case rArr:
		n = len(c.A)
	default:
		return fail(EType)
	}
	if len(ix) == 1 {
		i := ix[0].I
		if i < 0 || i >= n {
			return fail(EIndex)
		}
		if c.K == rStr {
			// what s[i] is for bytes outside ASCII is not described: not followed
			vrt.Assume(c.S[i] < 0x80)
			return ok(RS(c.S[i : i+1]))
		}
		return ok(c.A[i])
	}
	i, j := ix[0].I, ix[1].I
	if i < 0 || i > j || j > n {
		return fail(EIndex)
	}
	if c.K == rStr {
		return ok(RS(c.S[i:j]))
	}
	return ok(RA(append([]RV{}, c.A[i:j]...)))
}

// RStr renders a value the way write prints it.
func RStr(v RV) string {
	switch v.K {
	case rNil:
		return "nil"
	case rInt:
		return strconv.Itoa(v.I)
	case rFloat:
		return fmt.Sprint(v.F)
	case rBool:
		if v.B {
			return "true"
		}
		return "false"
	case rStr:
		return v.S
	case rFn:
		return "function"
	}
	s := "["
	for i, e := range v.A {
		if i > 0 {
			s += ", "
		}
		s += RStr(e)
	}
	return s + "]"
}

// FromValue converts an implementation value (used for preset globals).
func FromValue(v value.Type) RV {
	if v.IsNil() {
		return RNil
	}
	if i, ok := v.ToInt(); ok {
		return RI(i)
	}
	if b, ok := v.ToBool(); ok {
		return RB(b)
	}
	if s, ok := v.ToString(); ok {
		return RS(s)
	}
	if a, ok := v.ToArray(); ok {
		out := make([]RV, 0, len(a))
		for _, e := range a {
			out = append(out, FromValue(e))
		}
		return RA(out)
	}
	if _, ok := v.ToFunction(); ok {
		return RV{K: rFn, Fn: &RFn{builtin: "opaque"}}
	}
	return RF(value.VerifFloat(v))
}

// SameAsRef compares an implementation value with a reference value structurally.
func SameAsRef(v value.Type, r RV) bool {
	switch r.K {
	case rNil:
		return v.IsNil()
	case rInt:
		i, ok := v.ToInt()
		return ok && i == r.I
	case rBool:
		b, ok := v.ToBool()
		return ok && b == r.B
	case rStr:
		s, ok := v.ToString()
		return ok && s == r.S
	case rFn:
		_, ok := v.ToFunction()
		return ok
	case rArr:
		a, ok := v.ToArray()
		if !ok || len(a) != len(r.A) {
			return false
		}
		for i := range a {
			if !SameAsRef(a[i], r.A[i]) {
				return false
			}
		}
		return true
	}
	if !value.VerifIsFloat(v) {
		return false
	}
	f := value.VerifFloat(v)
	return f == r.F || (f != f && r.F != r.F)
}
