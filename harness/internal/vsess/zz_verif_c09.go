//go:build verif

package vsess

import (
	"github.com/paulsonkoly/calc/internal/vrt"
	"github.com/paulsonkoly/calc/types/node"
	"github.com/paulsonkoly/calc/types/value"
)

// Harnesses for C09 (evaluation leaves the machine clean).

func (s *Session) c09Clean(label string) {
	sp, frames, closures, contexts, ipAtEnd := s.Clean()
	vrt.Assert(sp == 0, label+"/operand-stack-empty")
	vrt.Assert(frames == 0, label+"/no-call-frame-left")
	vrt.Assert(closures == 0, label+"/no-closure-frame-left")
	vrt.Assert(contexts == 0, label+"/no-iterator-context-left")
	vrt.Assert(ipAtEnd, label+"/instruction-pointer-at-end-of-code")
}

// VerifC09Stmt: every statement form in every body position, used and discarded, normal exit,
// return and runtime error: afterwards the stacks and the context set are empty.
func VerifC09Stmt() {
	s := New()
	s.c09Clean("after-builtins")
	g := NewGen(s)
	st := g.Stmt(vrt.Param("sdepth", 2))
	prog, used := StmtEmbed(vrt.Choice("sctx", NStmtCtx), st)
	vrt.Note("program", Src(prog))
	_, err := s.Run(prog, used)
	if err == nil {
		vrt.Cover("value")
		s.c09Clean("after-statement")
	} else {
		vrt.Cover("runtime-error")
		s.c09Clean("after-failed-statement")
	}
	// and once more after a second statement in the same session: a lock-step loop over two
	// generators, whose contexts must not collide with anything left behind
	next := node.For{VarRefs: node.List{Elems: []node.Type{nm("k"), nm("l")}},
		Iterators: node.List{Elems: []node.Type{call("fromto", node.Int(0), node.Int(2)), call("fromto", node.Int(5), node.Int(8))}},
		Body:      bin("+", nm("k"), nm("l"))}
	v, err2 := s.Run(next, true)
	got, isInt := v.ToInt()
	vrt.Assert(err2 == nil && isInt && got == 7, "next-statement-value")
	s.c09Clean("after-next-statement")
}

// VerifC09Expr: expression families in the statement embeddings.
func VerifC09Expr() {
	s := New()
	g := NewGen(s)
	ctx := vrt.Choice("ctx", vrt.Param("nctx", NCtx))
	var e node.Type
	if vrt.Bool("sandwich") {
		e = g.Sandwich()
	} else {
		e = g.Expr(vrt.Param("budget", 1))
	}
	prog, used := Embed(ctx, e)
	vrt.Note("program", Src(prog))
	s.RunPre(g)
	_, err := s.Run(prog, used)
	if err == nil {
		vrt.Cover("value")
	} else {
		vrt.Cover("runtime-error")
	}
	s.c09Clean("after-statement")
}

var (
	c09Body node.Type
	c09Poly [3]bool
	c09Vals [3]value.Type
)

func c09LoopProgram(g *Gen, shape int, body node.Type, n int) (node.Type, bool) {
	cnt := node.While{Condition: bin("<", nm("i"), node.Int(n)), Body: blk(body, asg("i", bin("+", nm("i"), node.Int(1))))}
	forl := node.For{VarRefs: node.List{Elems: []node.Type{nm("k")}}, Iterators: node.List{Elems: []node.Type{call("fromto", node.Int(0), node.Int(n))}}, Body: body}
	switch shape {
	case 0: // counted while at top level, script mode
		return blk(asg("i", node.Int(0)), cnt), false
	case 1: // counted while inside a function
		return blk(asg("f", fn(blk(asg("i", node.Int(0)), cnt, node.Int(0)))), call("f")), true
	case 2: // for loop at top level
		return forl, false
	case 3: // for loop inside a function, value used
		return blk(asg("f", fn(forl)), call("f")), true
	default: // loop inside a generator consumed by a loop
		return blk(asg("gen", fn(blk(asg("i", node.Int(0)), node.While{Condition: bin("<", nm("i"), node.Int(n)), Body: blk(body, node.Yield{Target: nm("i")}, asg("i", bin("+", nm("i"), node.Int(1))))}))),
			node.For{VarRefs: node.List{Elems: []node.Type{nm("j")}}, Iterators: node.List{Elems: []node.Type{call("gen")}}, Body: nm("j")}), false
	}
}

// VerifC09Loop: the working storage of a loop does not grow with its iteration count: the same
// loop run for 1 and for N iterations (N beyond the 128-cell allocation unit) leaves the operand
// stack array equally long, and the machine clean.
func VerifC09Loop() {
	n := vrt.Param("iterations", 140)
	shape := vrt.Choice("shape", 5)
	bodyKind := vrt.Choice("body", 2)
	var lens [2]int
	for run := 0; run < 2; run++ {
		s := New()
		g := NewGen(s)
		var body node.Type
		// the body is generated identically in both runs: the choices are made once
		if run == 0 {
			if bodyKind == 0 {
				c09Body = g.Stmt(vrt.Param("sdepth", 1))
			} else {
				c09Body = g.Expr(vrt.Param("budget", 1))
			}
		}
		body = c09Body
		// the preset globals have to exist in both sessions
		if run == 1 {
			for k := 0; k < 3; k++ {
				if c09Poly[k] {
					s.M.SetGlobal("p"+string(rune('0'+k)), c09Vals[k])
				}
			}
		} else {
			for k := 0; k < 3; k++ {
				c09Poly[k] = g.polySet[k]
				if g.polySet[k] {
					c09Vals[k] = s.M.LookUpGlobal("p" + string(rune('0'+k)))
				}
			}
		}
		iters := 1
		if run == 1 {
			iters = n
		}
		prog, used := c09LoopProgram(g, shape, body, iters)
		if run == 0 {
			vrt.Note("program", Src(prog))
		}
		s.RunPre(g)
		_, err := s.Run(prog, used)
		if err != nil {
			vrt.Cover("runtime-error")
			return
		}
		s.c09Clean("after-loop")
		lens[run] = s.M.VerifStackLen()
	}
	vrt.Assert(lens[0] == lens[1], "loop-storage-independent-of-iteration-count")
	vrt.Cover("compared")
}
