//go:build verif

package vsess

import (
	"strings"

	"github.com/paulsonkoly/calc/internal/vrt"
	"github.com/paulsonkoly/calc/types/node"
)

// Harness for C19 (runtime error reports point at the real failure). Failing programs are run
// with the whole output captured; the report is taken apart line by line and compared with what
// the program structure dictates: error class, the marked instruction's operation and operand
// values, and per context the active calls innermost first with call-site names and current
// parameter values. The text pieces that depend on number formatting widths (instruction word,
// context address) are not compared.

type report struct {
	class    string
	marked   []string // the "--> " lines
	contexts [][]string
	corrupt  bool
}

func parseReport(out string) report {
	var r report
	i := strings.Index(out, "RUNTIME ERROR : ")
	if i < 0 {
		return r
	}
	lines := strings.Split(out[i:], "\n")
	r.class = strings.TrimPrefix(lines[0], "RUNTIME ERROR : ")
	for _, ln := range lines[1:] {
		switch {
		case strings.HasPrefix(ln, "--> "):
			r.marked = append(r.marked, ln)
		case strings.HasPrefix(ln, "memory context "):
			r.contexts = append(r.contexts, nil)
		case strings.HasPrefix(ln, "IP: ") && len(r.contexts) > 0:
			k := strings.Index(ln, " ")
			rest := ln[k+1:]
			k = strings.Index(rest, " ")
			r.contexts[len(r.contexts)-1] = append(r.contexts[len(r.contexts)-1], rest[k+1:])
		case strings.Contains(ln, "giving up"):
			r.corrupt = true
		}
	}
	return r
}

func abbrev(s string) string {
	if len(s) > 20 {
		return s[:17] + "..."
	}
	return s
}

func VerifC19Report() {
	p := NewPair()
	p.genDefs()
	// the value that decides the failure (concrete: the report is text)
	var z node.Type
	var zText, class string
	fails := true
	// the failing operation: 10 / v, 10 % v, 10 < v, [7, 8][v]
	opk := vrt.Choice("operation", 4)
	opName := [...]string{" DIV ", " MOD ", " LT ", " IX1 "}[opk]
	left := [...]string{"10", "10", "10", "[7, 8]"}[opk]
	var failing node.Type
	switch opk {
	case 0:
		failing = bin("/", ilit(10), nm("v"))
	case 1:
		failing = bin("%", ilit(10), nm("v"))
	case 2:
		failing = bin("<", ilit(10), nm("v"))
	default:
		failing = node.IndexAt{Ary: lst(ilit(7), ilit(8)), At: nm("v")}
	}
	switch vrt.Choice("operand", 5) {
	case 0:
		z, zText, class = ilit(0), "0", "division by zero"
		if opk >= 2 {
			class, fails = "", false // 10 < 0 and [7, 8][0] are fine
		}
	case 1:
		z, zText, class = node.Bool(true), "true", "type error"
	case 2:
		z, zText, class = lst(ilit(1), ilit(2), ilit(3), ilit(4), ilit(5), ilit(6), ilit(7)), "[1, 2, 3, 4, 5, 6, 7]", "type error"
	case 3:
		z, zText, class = str("a fairly long string value"), "a fairly long string value", "type error"
	default:
		z, zText, class, fails = ilit(5), "5", "", false
		if opk == 3 {
			class, fails = "index error", true
		}
	}
	p.steps("defs", false,
		asg("fail", fn(failing, "v")),
		asg("wrapf", fn(lst(call("fail", nm("v")), nm("w")), "v", "w")),
		asg("app", fn(call("g", nm("x")), "g", "x")),
		asg("bad", fn(blk(yld(ilit(1)), call("fail", nm("v")), yld(ilit(2))), "v")),
		asg("early", fn(blk(call("fail", nm("v")), yld(ilit(1))), "v")),
		asg("cons", fn(forl("e", call("bad", nm("q")), nm("e")), "q")),
		asg("outer", fn(forl("a", call("two"), call("cons", nm("q"))), "q")),
		asg("chg", fn(blk(asg("v", bin("+", nm("v"), ilit(0))), asg("k", ilit(99)), asg("v", nm("k")), call("fail", nm("z"))), "v", "z")))
	var prog node.Type
	var want [][]string // per context, innermost call first: "name() args: ..."
	a0 := "arg[0]: " + abbrev(zText)
	switch vrt.Choice("shape", 8) {
	case 0:
		prog = call("fail", z)
		want = [][]string{{"fail() args: " + a0}}
	case 1:
		prog = call("wrapf", z, ilit(7))
		want = [][]string{{"fail() args: " + a0, "wrapf() args: " + a0 + " arg[1]: 7"}}
	case 2: // the function is held by a parameter: the call site names it g
		prog = call("app", nm("fail"), z)
		want = [][]string{{"g() args: " + a0, "app() args: arg[0]: function arg[1]: " + abbrev(zText)}}
	case 3: // inside a generator, after its first yield
		prog = call("cons", z)
		// a forked context starts from a copy of the forking activation's frame, which it lists too
		want = [][]string{{"fail() args: " + a0, "bad() args: " + a0, "cons() args: " + a0}, {"cons() args: " + a0}}
	case 4: // generator nested in a loop body at call depth: two forks deep? (cons runs in the parent)
		prog = call("outer", z)
		want = [][]string{{"fail() args: " + a0, "bad() args: " + a0, "cons() args: " + a0}, {"cons() args: " + a0, "outer() args: " + a0}}
	case 5: // parameters show their current values
		prog = call("chg", ilit(1), z)
		want = [][]string{{"fail() args: " + a0, "chg() args: arg[0]: 99 arg[1]: " + abbrev(zText)}}
	case 6: // a generator failing before its first yield, in the second top-level loop of a statement
		prog = blk(forl("e", call("cnt", ilit(1)), ilit(0)), forl("e", call("early", z), nm("e")))
		want = [][]string{{"fail() args: " + a0, "early() args: " + a0}, {}}
	default: // top level
		switch opk {
		case 0:
			prog = bin("/", ilit(10), z)
		case 1:
			prog = bin("%", ilit(10), z)
		case 2:
			prog = bin("<", ilit(10), z)
		default:
			prog = node.IndexAt{Ary: lst(ilit(7), ilit(8)), At: z}
		}
		want = [][]string{{}}
	}
	vrt.Note("program", Src(prog))
	vrt.CaptureStart()
	_, err := p.S.Run(prog, true)
	out := vrt.CapturedAll()
	vrt.Assert((err != nil) == fails, "fails-iff-expected")
	if !fails {
		vrt.Assert(!strings.Contains(out, "RUNTIME ERROR"), "no-report-without-error")
		vrt.Cover("no-error")
		return
	}
	r := parseReport(out)
	vrt.Assert(r.class == class, "report-names-the-error-class")
	vrt.Assert(!r.corrupt, "report-complete")
	vrt.Assert(len(r.marked) == 1, "exactly-one-instruction-marked")
	if len(r.marked) == 1 {
		m := r.marked[0]
		vrt.Assert(strings.Contains(m, opName), "marked-instruction-is-the-failing-operation")
		vrt.Assert(strings.HasSuffix(m, "; "+left+", "+abbrev(zText)), "marked-instruction-shows-the-operand-values")
	}
	vrt.Assert(len(r.contexts) == len(want), "one-stack-per-context-failing-context-first")
	for i := range want {
		if i >= len(r.contexts) {
			break
		}
		vrt.Assert(len(r.contexts[i]) == len(want[i]), "active-calls-listed")
		for j := range want[i] {
			if j < len(r.contexts[i]) {
				vrt.Assert(r.contexts[i][j] == want[i][j], "call-listed-innermost-first-with-name-and-current-parameters")
			}
		}
	}
	vrt.Cover("report")
}
