//go:build verif

package vsess

import (
	"github.com/paulsonkoly/calc/internal/vrt"
	"github.com/paulsonkoly/calc/types/node"
)

// Harness for C08 (a session survives errors): a statement whose failure depends on a symbolic
// operand is placed at every dynamic depth; the whole session (statements before, the failing
// one, probes after) is compared step by step with the reference evaluator, in which a failed
// statement has no effect but the global bindings it completed. The machine must also be clean
// after the failure.

func VerifC08Session() {
	p := NewPair()
	g := p.G
	p.genDefs()
	A, B := lit(), lit()
	p.steps("prefix", false, asg("g1", A), asg("g2", B),
		asg("fail", fn(bin("/", ilit(10), nm("v")), "v")),
		asg("wrapf", fn(bin("+", call("fail", nm("v")), ilit(1)), "v")),
		asg("bad", fn(blk(yld(ilit(1)), call("fail", nm("v")), yld(ilit(2))), "v")))
	z := g.poly(0) // the operand that decides whether (and how) the statement fails
	var risky node.Type
	switch vrt.Choice("operation", 5) {
	case 4:
		// read() at the end of standard input: the read error class
		vrt.SetStdin("")
		risky = call("read")
	case 0:
		risky = bin("/", ilit(10), z)
	case 1:
		risky = node.IndexAt{Ary: g.arrGlobal(), At: z}
	case 2:
		risky = asg("g1", z) // assigning an absent value to a bound global
	default:
		risky = call("two", z) // wrong argument count
	}
	var sf node.Type
	switch vrt.Choice("depth", 8) {
	case 0: // top level, between two assignments
		sf = blk(asg("g1", lit()), risky, asg("g2", lit()))
	case 1: // in a nested call
		sf = blk(asg("g1", lit()), asg("h", fn(blk(asg("loc", ilit(1)), risky), "q")), asg("k", fn(bin("+", call("h", nm("q")), ilit(1)), "q")), call("k", ilit(0)), asg("g2", lit()))
	case 2: // in a while body
		sf = blk(asg("i", ilit(0)), whilel(bin("<", nm("i"), ilit(2)), blk(asg("g1", nm("i")), risky, asg("i", bin("+", nm("i"), ilit(1))))), asg("g2", lit()))
	case 3: // in a for body (the generator is suspended)
		sf = blk(forl("e", call("cnt", ilit(2)), blk(asg("g1", nm("e")), risky)), asg("g2", lit()))
	case 4: // inside a generator, after its first yield
		sf = blk(asg("gen", lam(blk(yld(ilit(1)), risky, yld(ilit(2))))), forl("e", call("gen"), asg("g1", nm("e"))), asg("g2", lit()))
	case 5: // inside a generator nested in another loop's body, at call depth
		sf = blk(asg("gen", lam(blk(yld(ilit(1)), risky, yld(ilit(2))))), asg("run", lam(forl("a", call("two"), forl("e", call("gen"), asg("g1", nm("e")))))), call("run"), asg("g2", lit()))
	case 6: // in a composed generator (generator consumed by a generator)
		sf = blk(asg("gen", lam(blk(yld(ilit(1)), risky, yld(ilit(2))))), forl("e", call("map", nm("inc"), nm("gen")), asg("g1", nm("e"))), asg("g2", lit()))
	default: // in the body of a lock-step loop
		sf = blk(zipl("a", "b", call("two"), call("fromto", ilit(0), ilit(3)), blk(asg("g1", nm("b")), risky)), asg("g2", lit()))
	}
	// a function bound to a global earlier in the same statement: the binding is completed before
	// the failure, so it persists and must stay callable
	sf = blk(append([]node.Type{asg("surv", fn(bin("+", nm("v"), lit()), "v"))}, sf.(node.Block).Body...)...)
	vrt.Note("failing-statement", Src(sf))
	used := vrt.Bool("repl-mode")
	failed := p.Step(sf, used, "failing-statement")
	p.S.c09Clean("after-failing-statement")
	if failed {
		vrt.Cover("failed")
	} else {
		vrt.Cover("did-not-fail")
	}
	if vrt.Bool("fails-again") {
		p.Step(sf, used, "failing-statement-again")
		p.S.c09Clean("after-second-failure")
	}
	// probes
	p.Step(nm("g1"), true, "probe/g1")
	p.Step(nm("g2"), true, "probe/g2")
	p.Step(call("surv", ilit(5)), true, "probe/function-bound-in-the-failed-statement")
	switch vrt.Choice("probe", 5) {
	case 4: // a closure whose defining call reallocates the operand stack before updating the captured variable
		p.steps("probe-defs", false,
			asg("dive", fn(node.IfElse{Condition: bin(">", nm("d"), ilit(0)), TrueCase: bin("+", call("dive", bin("-", nm("d"), ilit(1))), ilit(1)), FalseCase: ilit(0)}, "d")),
			asg("mkc", fn(blk(asg("y", nm("n")), asg("g", fn(nm("y"))), asg("dd", call("dive", ilit(140))), asg("y", bin("*", nm("n"), ilit(10))), node.List{Elems: []node.Type{call("g"), nm("y")}}), "n")))
		p.Step(call("mkc", lit()), true, "probe/closure-across-stack-growth")
		p.Step(call("mkc", lit()), true, "probe/closure-across-stack-growth-again")
	case 0:
		p.Step(call("wrapf", ilit(5)), true, "probe/call")
	case 1:
		p.Step(forl("e", call("cnt", ilit(2)), call("write", nm("e"))), true, "probe/loop")
	case 2:
		p.Step(zipl("a", "b", call("two"), call("map", nm("inc"), nm("two")), call("write", node.List{Elems: []node.Type{nm("a"), nm("b")}})), true, "probe/lock-step-loop")
	default:
		p.Step(blk(asg("mk2", fn(fn(bin("+", nm("x"), nm("y")), "y"), "x")), asg("c", call("mk2", ilit(3))), call("c", ilit(4))), true, "probe/closure")
	}
	p.S.c09Clean("end")
}
