//go:build verif

package vsess

import (
	"math"

	"github.com/paulsonkoly/calc/internal/vrt"
	"github.com/paulsonkoly/calc/types/node"
	"github.com/paulsonkoly/calc/types/value"
)

// Harnesses for C17 (built-in functions keep their contracts).

// polyAny: an argument of any kind (scalars of symbolic kind, strings of symbolic bytes, arrays).
func (g *Gen) polyAny(label string) node.Type {
	switch vrt.Choice(label, 5) {
	case 0:
		return g.poly(0)
	case 1:
		g.setGlobal("sv", value.NewString(vrt.Bytes("sv", vrt.Choice("sv.len", 3))))
		return nm("sv")
	case 2:
		g.poly(1)
		g.setGlobal("sv", value.NewString(vrt.Bytes("sv", 1)))
		return lst(nm("p1"), nm("sv"), lit())
	case 3:
		g.poly(1)
		return lst(lst(nm("p1")), lst(), lit())
	default:
		return fn(lit())
	}
}

// VerifC17Toa: toa renders any value exactly as write prints it.
func VerifC17Toa() {
	p := NewPair()
	v := p.G.polyAny("value")
	p.steps("bind", false, asg("val", lst(v))) // inside an array so that an absent value can be bound
	val := node.IndexAt{Ary: nm("val"), At: ilit(0)}
	vrt.CaptureStart()
	_, err := p.S.Run(call("write", val), false)
	printed := vrt.Captured()
	vrt.Assert(err == nil, "write-accepts-any-value")
	s, err2 := p.S.Run(call("toa", val), true)
	text, isStr := s.ToString()
	vrt.Assert(err2 == nil && isStr, "toa-returns-a-string")
	vrt.Assert(text == printed, "toa-equals-what-write-prints")
	// and both agree with the documented rendering
	rv, _ := p.Ev.Run(call("toa", val))
	vrt.Assert(text == rv.S, "rendering-equals-reference")
	// wrong argument counts
	_, e3 := p.S.Run(call("toa"), true)
	_, e4 := p.S.Run(call("write", val, val), true)
	vrt.Assert(Class(e3) == EArity && Class(e4) == EArity, "wrong-argument-count-is-an-arity-error")
	vrt.Cover("done")
}

// VerifC17Aton: aton(toa(n)) == n for every int (symbolic n; the decimal rendering is an opaque,
// injective function of n in the engine), for boundary ints and a list of floats concretely
// through the real strconv; malformed text is a conversion error, non-strings a type error.
func VerifC17Aton() {
	p := NewPair()
	switch vrt.Choice("case", 6) {
	case 5:
		// every finite float: the decimal rendering is an opaque function of the value whose
		// inverse is strconv.ParseFloat (shortest formatting round-trips: trusted standard library);
		// what is decided here is that toa uses that rendering and aton that parser, and that the
		// integer-looking renderings (3.0 prints as 3) come back as an equal value
		bits := vrt.Uint64("x.bits")
		x := math.Float64frombits(bits)
		vrt.Assume(x == x && x <= math.MaxFloat64 && x >= -math.MaxFloat64)
		p.steps("bind", false, asg("x", node.Float(x)))
		v, err := p.S.Run(bin("==", call("aton", call("toa", nm("x"))), nm("x")), true)
		eq, ok := v.ToBool()
		vrt.Assert(err == nil && ok && eq, "aton(toa(x))==x for every finite float")
		vrt.Cover("all-finite-floats")
	case 0:
		n := vrt.Int("n")
		p.steps("bind", false, asg("n", node.Int(n)))
		v, err := p.S.Run(call("aton", call("toa", nm("n"))), true)
		got, ok := v.ToInt()
		vrt.Assert(err == nil && ok && got == n, "aton(toa(n))==n")
	case 1:
		ints := [...]int{0, -1, 9, 10, -10, 99, 100, 999999999, 1000000000, math.MaxInt64, math.MinInt64, math.MaxInt64 - 1, -999999999999999999, 1000000000000000000}
		n := ints[vrt.Choice("int", len(ints))]
		v, err := p.S.Run(call("aton", call("toa", node.Int(n))), true)
		got, ok := v.ToInt()
		vrt.Assert(err == nil && ok && got == n, "aton(toa(n))==n (boundary values)")
	case 2:
		floats := [...]float64{0.5, 1.5, -2.25, 1e6, 3e6, 1e-5, 1e21, 1e24, 123456789.125, 0.1, 1234567.0, 100000.0, 2.5e-7, math.MaxFloat64, math.SmallestNonzeroFloat64}
		f := floats[vrt.Choice("float", len(floats))]
		p.steps("bind", false, asg("x", node.Float(f)))
		v, err := p.S.Run(bin("==", call("aton", call("toa", nm("x"))), nm("x")), true)
		eq, ok := v.ToBool()
		vrt.Assert(err == nil && ok && eq, "aton(toa(x))==x (sample of finite floats, concrete)")
	case 3:
		bad := [...]string{"", "abc", "1x", "--1", "1.2.3", " 1", "0x10", "1e"}
		s := bad[vrt.Choice("text", len(bad))]
		_, err := p.S.Run(call("aton", node.String(s)), true)
		vrt.Assert(Class(err) == EConv, "malformed-number-is-a-conversion-error")
	default:
		arg := p.G.polyAny("value")
		if _, isName := arg.(node.Name); isName {
			// strings of symbolic bytes would need a symbolic float parser; malformed and well-formed
			// texts are covered concretely above
			vrt.Assume(arg.(node.Name) != "sv")
		}
		p.steps("bind", false, asg("val", lst(arg)))
		v, err := p.S.Run(call("aton", node.IndexAt{Ary: nm("val"), At: ilit(0)}), true)
		rv, rerr := p.Ev.Run(call("aton", node.IndexAt{Ary: nm("val"), At: ilit(0)}))
		vrt.Assert(SameClass(Class(err), rerr), "aton-error-class-equals-reference")
		if err == nil {
			vrt.Assert(SameAsRef(v, rv), "aton-value-equals-reference")
		}
		_, e2 := p.S.Run(call("aton"), true)
		vrt.Assert(Class(e2) == EArity, "wrong-argument-count-is-an-arity-error")
	}
	vrt.Cover("done")
}

// VerifC17Iter: fromto(a,b) yields a, a+1, ... b-1 and nothing when a>=b; elems/indices yield the
// elements / the positions of any array or string; wrong kinds are runtime errors.
func VerifC17Iter() {
	p := NewPair()
	collect := func(it node.Type) node.Type {
		return blk(asg("acc", lst()), forl("e", it, asg("acc", bin("+", nm("acc"), lst(nm("e"))))), nm("acc"))
	}
	switch vrt.Choice("builtin", 4) {
	case 0:
		a := vrt.Int("a")
		n := vrt.Range("count", -2, 4)
		if vrt.Bool("near-a-magnitude-limit") {
			// a within 16 of +-2^53 (where float64 stops holding every int) or of +-2^62
			d := vrt.Range("offset", -16, 16)
			bases := [...]int{1 << 53, -(1 << 53), 1<<62 - 32, -(1<<62 - 32), 1 << 24, 1 << 31, 1 << 32}
			vrt.Assume(a == bases[vrt.Choice("limit", len(bases))]+d)
		}
		vrt.Assume(a < 1<<62 && a > -(1<<62))
		b := a + n
		v, err := p.S.Run(collect(call("fromto", node.Int(a), node.Int(b))), true)
		arr, ok := v.ToArray()
		vrt.Assert(err == nil && ok, "fromto-iterates")
		want := 0
		if n > 0 {
			want = n
		}
		vrt.Assert(len(arr) == want, "fromto-yields-b-a-values-or-none")
		for i := range arr {
			x, isInt := arr[i].ToInt()
			vrt.Assert(isInt && x == a+i, "fromto-yields-a+i")
		}
	case 1:
		x := p.G.polyAny("container")
		p.steps("bind", false, asg("val", lst(x)))
		c := node.IndexAt{Ary: nm("val"), At: ilit(0)}
		p.Step(collect(call("elems", c)), true, "elems")
		// elems(x)[i] == x[i]
		p.Step(collect(call("indices", c)), true, "indices")
	case 2: // wrong argument kinds for fromto
		// one argument of arbitrary scalar kind, the other not a number (two numbers are case 0)
		if vrt.Bool("first-arbitrary") {
			p.Step(collect(call("fromto", p.G.poly(0), node.Bool(true))), true, "fromto-any-kinds")
		} else {
			p.Step(collect(call("fromto", str("a"), p.G.poly(0))), true, "fromto-any-kinds")
		}
	default: // wrong argument counts
		_, e1 := p.S.Run(collect(call("fromto", ilit(1))), true)
		_, e2 := p.S.Run(collect(call("elems")), true)
		_, e3 := p.S.Run(collect(call("indices", lst(), lst())), true)
		vrt.Assert(Class(e1) == EArity && Class(e2) == EArity && Class(e3) == EArity, "wrong-argument-count-is-an-arity-error")
	}
	vrt.Cover("done")
}

// VerifC17Read: successive read() calls return successive lines of standard input, whatever the
// sizes of the chunks the operating system hands out.
func VerifC17Read() {
	s := New()
	nlines := 1 + vrt.Choice("lines", 3)
	var lines [3]string
	input := ""
	for i := 0; i < nlines; i++ {
		l := vrt.Bytes("line", vrt.Choice("len", 3))
		for k := 0; k < len(l); k++ {
			vrt.Assume(l[k] != '\n')
		}
		lines[i] = l + "\n"
		input += lines[i]
	}
	vrt.SetStdin(input)
	vrt.StdinChunks()
	for i := 0; i < nlines; i++ {
		v, err := s.Run(call("read"), true)
		got, ok := v.ToString()
		vrt.Assert(err == nil && ok, "read-returns-a-line")
		vrt.Assert(got == lines[i], "read-returns-the-next-line")
	}
	_, err := s.Run(call("read"), true)
	vrt.Assert(err != nil && Class(err) == ERead, "read-at-end-of-input-is-a-read-error")
	_, e2 := s.Run(call("read", ilit(1)), true)
	vrt.Assert(Class(e2) == EArity, "wrong-argument-count-is-an-arity-error")
	vrt.Cover("done")
}
