//go:build verif

package vsess

import (
	"github.com/paulsonkoly/calc/internal/vrt"
	"github.com/paulsonkoly/calc/types/node"
)

// Harnesses for C04 (lexical scoping and isolation), compared statement by statement with the
// reference evaluator. Variable names are drawn from a small pool so that parameters, locals,
// loop variables, captured variables and globals shadow each other in every way.

var pool = [...]string{"x", "y", "z"}

func pick(label string) string { return pool[vrt.Choice(label, vrt.Param("pool", len(pool)))] }

func lit() node.Type { return node.Int(vrt.Int("lit")) }

// small expression over a set of visible names
func nameExpr(label string) node.Type {
	switch vrt.Choice(label, 3) {
	case 0:
		return nm(pick(label + ".name"))
	case 1:
		return bin("+", nm(pick(label+".name")), lit())
	default:
		return lit()
	}
}

func (p *Pair) steps(label string, used bool, progs ...node.Type) {
	for _, pr := range progs {
		p.Step(pr, used, label)
	}
}

// observe reads every pool name and r at top level on both sides.
func (p *Pair) observe(label string) {
	for _, n := range pool {
		p.Step(nm(n), true, label+"/global-"+n)
	}
}

// VerifC04Shadow: a function with parameter and local names drawn from the pool assigns and reads
// them; afterwards every global still has its value and the call returned what the rules say.
func VerifC04Shadow() {
	p := NewPair()
	p.steps("setup", false, asg("x", lit()), asg("y", lit()))
	par := pick("param")
	body := []node.Type{}
	n := 1 + vrt.Choice("stmts", vrt.Param("maxstmts", 3))
	for i := 0; i < n; i++ {
		switch vrt.Choice("stmt", 4) {
		case 0, 1:
			body = append(body, asg(pick("target"), nameExpr("rhs")))
		case 2:
			// two iterations; the iterator expression reads pool names (possibly the loop variable's own name)
			body = append(body, node.For{VarRefs: node.List{Elems: []node.Type{nm(pick("forvar"))}},
				Iterators: node.List{Elems: []node.Type{call("elems", node.List{Elems: []node.Type{nameExpr("elem1"), lit()}})}}, Body: asg(pick("target"), nm(pick("rhs.name")))})
		default:
			body = append(body, node.If{Condition: bin("<", nm(pick("c")), lit()), TrueCase: asg(pick("target"), nameExpr("rhs"))})
		}
	}
	body = append(body, nm(pick("result")))
	f := asg("f", fn(blk(body...), par))
	vrt.Note("function", Src(f))
	p.steps("define", false, f)
	arg := lit()
	p.Step(asg("r", call("f", arg)), true, "call")
	p.observe("after-call")
	p.Step(nm("r"), true, "result")
	vrt.Cover("done")
}

// VerifC04LoopVars: loop variables of lock-step loops share the function's variables by name:
// each may already be a parameter or local, or be new; locals introduced in the body and after the
// loop are yet other variables. All of them are read at the end.
func VerifC04LoopVars() {
	p := NewPair()
	p.steps("setup", false, asg("x", lit()), asg("y", lit()))
	names := [...]string{"x", "y", "z", "u"}
	nn := vrt.Param("loopnames", len(names))
	pk := func(label string) string { return names[vrt.Choice(label, nn)] }
	par := pk("param")
	body := []node.Type{}
	if vrt.Bool("local-before-loop") {
		body = append(body, asg(pk("local"), lit()))
	}
	nv := 1 + vrt.Choice("loop-variables", 3)
	f := node.For{}
	for i := 0; i < nv; i++ {
		v := pk("loop-variable")
		for _, e := range f.VarRefs.Elems {
			vrt.Assume(string(e.(node.Name)) != v)
		}
		f.VarRefs.Elems = append(f.VarRefs.Elems, nm(v))
		f.Iterators.Elems = append(f.Iterators.Elems, call("elems", node.List{Elems: []node.Type{lit(), lit()}}))
	}
	if vrt.Bool("new-local-in-body") {
		f.Body = blk(asg("t", bin("+", nm(pk("body-read")), lit())), asg("acc", nm("t")))
	} else {
		f.Body = asg("acc", nm(pk("body-read")))
	}
	body = append(body, f)
	if vrt.Bool("new-local-after-loop") {
		body = append(body, asg("w", lit()))
	}
	all := node.List{}
	for _, n := range names[:nn] {
		all.Elems = append(all.Elems, nm(n))
	}
	all.Elems = append(all.Elems, nm("t"), nm("acc"), nm("w"))
	body = append(body, all)
	fd := asg("f", fn(blk(body...), par))
	vrt.Note("function", Src(fd))
	p.steps("define", false, fd)
	p.Step(call("f", lit()), true, "call")
	p.observe("after-call")
	vrt.Cover("done")
}

// VerifC04Closure: a closure captures variables of its defining function; updates made by the
// definer before it returns are visible, the closure's own assignments are its own, and after the
// definer has returned the closure keeps seeing the values the variables had then.
func VerifC04Closure() {
	p := NewPair()
	p.steps("setup", false, asg("x", lit()), asg("y", lit()))
	par := pick("param")
	cpar := pick("closure-param")
	// closure body: optionally assigns a pool name (its own local), then computes from names
	var cbody node.Type = bin("+", nm(pick("cl.read")), bin("+", nm(cpar), lit()))
	if vrt.Bool("closure-assigns") {
		cbody = blk(asg(pick("cl.target"), lit()), cbody)
	}
	body := []node.Type{asg(pick("local"), lit()), asg("g", fn(cbody, cpar))}
	if vrt.Bool("through-identity") {
		// the function value passes through a call that did not define it and comes back while
		// its defining function is still running: it is still the same closure
		p.steps("define", false, asg("ident", fn(nm("w"), "w")))
		body = append(body, asg("g", call("ident", nm("g"))))
	}
	if vrt.Bool("call-before-update") {
		body = append(body, asg("k", call("g", lit())))
	}
	tag := ""
	deep := vrt.Bool("deep-call-between")
	if deep {
		// a deep recursion between the definition of the closure and the update of the captured
		// variable: the operand stack grows (and is reallocated) while the closure exists
		p.steps("define", false, asg("dive", fn(node.IfElse{Condition: bin(">", nm("d"), ilit(0)), TrueCase: bin("+", call("dive", bin("-", nm("d"), ilit(1))), ilit(1)), FalseCase: ilit(0)}, "d")))
		body = append(body, asg("dd", call("dive", ilit(vrt.Param("dive", 140)))))
	}
	if vrt.Bool("update-after-definition") {
		body = append(body, asg(pick("local2"), bin("+", nm(par), lit())))
		if deep {
			// own labels: a captured variable updated after the operand stack was reallocated
			tag = "updated-after-stack-growth/"
		}
	}
	how := vrt.Choice("leaves-as", 5)
	switch how {
	case 0:
		body = append(body, nm("g")) // returned directly
	case 1:
		body = append(body, node.Return{Target: nm("g")})
	case 2:
		body = append(body, node.List{Elems: []node.Type{nm("g"), lit()}}) // inside an array
	case 4:
		// inside a nested array, after a sub-array without functions
		body = append(body, node.List{Elems: []node.Type{node.List{Elems: []node.Type{lit()}}, node.List{Elems: []node.Type{lit(), nm("g")}}}})
	default:
		body = append(body, call("g", lit())) // only its result leaves
	}
	f := asg("f", fn(blk(body...), par))
	vrt.Note("function", Src(f))
	p.steps("define", false, f)
	if vrt.Bool("called-through-a-wrapper") {
		// the defining function is not called straight from top level: a call below it has created
		// no function value of its own
		p.steps("define", false, asg("outer", fn(blk(asg("pre", lit()), call("f", nm("v"))), "v")))
		p.Step(asg("h", call("outer", lit())), true, tag+"call")
	} else {
		p.Step(asg("h", call("f", lit())), true, tag+"call")
	}
	p.observe("after-call")
	switch how {
	case 0, 1:
		// other calls happen in between (they reuse the stack region of f's frame)
		p.steps("between", false, asg("pad", fn(blk(asg("a", lit()), asg("b", lit()), asg("c", lit()), bin("+", nm("a"), nm("b"))))), call("pad"))
		p.Step(call("h", lit()), true, tag+"closure-call")
		p.Step(call("h", lit()), true, tag+"closure-call-again")
	case 2:
		p.steps("between", false, asg("pad", fn(blk(asg("a", lit()), asg("b", lit()), asg("c", lit()), bin("+", nm("a"), nm("b"))))), call("pad"))
		p.Step(asg("t", node.IndexAt{Ary: nm("h"), At: node.Int(0)}), true, tag+"take-from-array")
		p.Step(call("t", lit()), true, tag+"closure-from-array-call")
	case 4:
		p.steps("between", false, asg("pad", fn(blk(asg("a", lit()), asg("b", lit()), asg("c", lit()), bin("+", nm("a"), nm("b"))))), call("pad"))
		p.Step(asg("t", node.IndexAt{Ary: node.IndexAt{Ary: nm("h"), At: node.Int(1)}, At: node.Int(1)}), true, tag+"take-from-nested-array")
		p.Step(call("t", lit()), true, tag+"closure-from-nested-array-call")
	default:
		p.Step(nm("h"), true, tag+"result")
	}
	p.observe("end")
	vrt.Cover("done")
}

// VerifC04Yielded: a closure defined in a generator reaches the loop by yield, is kept, and is
// called after the generator has finished or was abandoned and after another loop has run (which
// recycles the generator's context within one statement).
func VerifC04Yielded() {
	p := NewPair()
	p.steps("setup", false, asg("x", lit()), asg("y", lit()))
	v := pick("captured")
	gbody := []node.Type{asg(v, lit()), asg("g", fn(bin("+", nm(v), nm("q")), "q")), yld(nm("g"))}
	if vrt.Bool("update-and-yield-again") {
		gbody = append(gbody, asg(v, bin("+", nm("n"), lit())), yld(nm("g")))
	}
	if vrt.Bool("update-after-last-yield") {
		gbody = append(gbody, asg(v, lit()))
	}
	gen := asg("gen", fn(blk(gbody...), "n"))
	vrt.Note("generator", Src(gen))
	p.steps("define", false, gen,
		asg("other", fn(forl("k", call("fromto", ilit(0), nm("n")), blk(asg("zz", lit()), yld(bin("+", nm("zz"), nm("k"))))), "n")))
	var body node.Type = asg("s", nm("h"))
	if vrt.Bool("call-in-body") {
		body = blk(asg("r1", call("h", lit())), asg("s", nm("h")))
	}
	if vrt.Bool("abandon") {
		body = blk(body, ret(ilit(0)))
	}
	loops := blk(asg("s", ilit(0)), forl("h", call("gen", lit()), body), forl("u", call("other", ilit(2)), nm("u")), call("s", lit()))
	if vrt.Bool("inside-function") {
		p.steps("define", false, asg("f", fn(loops)))
		p.Step(call("f"), true, "kept-closure-after-recycling")
	} else {
		p.Step(loops, true, "kept-closure-after-recycling")
		p.Step(call("s", lit()), true, "kept-closure-next-statement")
	}
	p.observe("end")
	vrt.Cover("done")
}

// VerifC04Passing: function values passed down as arguments, returned up through functions that
// did not define them, and called at another depth.
func VerifC04Passing() {
	p := NewPair()
	p.steps("setup", false, asg("x", lit()), asg("y", lit()),
		asg("adder", fn(fn(bin("+", nm("v"), nm("k")), "v"), "k")),
		asg("wrap", fn(call("adder", nm("k")), "z", "k")),
		asg("ident", fn(nm("g"), "g")),
		asg("apply", fn(call("g", nm("v")), "g", "v")),
		asg("twice", fn(blk(asg("t", call("g", nm("v"))), call("g", nm("t"))), "g", "v")))
	var mk node.Type
	switch vrt.Choice("route", 5) {
	case 0:
		mk = call("adder", lit())
	case 1:
		mk = call("wrap", lit(), lit())
	case 2:
		mk = call("ident", call("adder", lit()))
	case 3:
		mk = call("ident", call("wrap", lit(), lit()))
	default:
		mk = call("wrap", call("apply", call("adder", lit()), lit()), lit())
	}
	vrt.Note("route", Src(mk))
	p.Step(asg("h", mk), true, "make")
	p.steps("between", false, asg("pad", fn(blk(asg("a", lit()), asg("b", lit()), bin("+", nm("a"), nm("b"))))), call("pad"))
	switch vrt.Choice("use", 3) {
	case 0:
		p.Step(call("h", lit()), true, "call")
	case 1:
		p.Step(call("apply", nm("h"), lit()), true, "call-through-apply")
	default:
		p.Step(call("twice", nm("h"), lit()), true, "call-twice")
	}
	p.observe("end")
	vrt.Cover("done")
}

// VerifC04Recursion: a recursive call does not disturb the caller's variables; arguments keep
// their values.
func VerifC04Recursion() {
	p := NewPair()
	d := vrt.Param("depth", 3)
	p.steps("setup", false, asg("x", lit()),
		asg("f", fn(blk(
			asg("l", bin("*", nm("n"), node.Int(3))),
			asg(pick("shadow"), bin("+", nm("n"), lit())),
			node.If{Condition: bin(">", nm("n"), node.Int(0)), TrueCase: asg("sub", call("f", bin("-", nm("n"), node.Int(1)), bin("+", nm("acc"), nm("l"))))},
			node.List{Elems: []node.Type{nm("n"), nm("l"), nm("acc"), nm(pick("read"))}}), "n", "acc")))
	p.Step(call("f", node.Int(vrt.Choice("n", d+1)), lit()), true, "call")
	p.observe("end")
	vrt.Cover("done")
}
