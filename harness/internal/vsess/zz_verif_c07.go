//go:build verif

package vsess

import (
	"reflect"

	"github.com/paulsonkoly/calc/internal/vrt"
	"github.com/paulsonkoly/calc/parser"
	"github.com/paulsonkoly/calc/types/node"
)

// Harness for C07 (parsing follows the documented grammar): a syntax tree is written out as
// source text using only the documented rules (five binary precedence levels, all left
// associative; unary operators bind tighter; indexing tightest; statements end at a newline;
// braces for multi-statement bodies) in a solver-chosen layout, parsed by the real front end, and
// the result must be the same tree. Integer literals are written with symbolic digits.

type layout struct {
	parens  bool // redundant parentheses around every operand
	spaces  bool // blanks around operators and after commas
	comment bool // a trailing comment on every line
	blank   bool // blank lines inside blocks and line breaks inside array literals
	unicode bool // non-ASCII text in comments
	pleaves bool // redundant parentheses around names and literals too
	clines  bool // lines holding only a comment: after {, between statements, before }
	indent  bool // lines inside blocks start with blanks and tabs, and end with blanks
}

// cl is an optional comment-only line.
func (l *layout) cl() string {
	if !l.clines {
		return ""
	}
	s := l.ind() + "; only a comment }\n"
	if l.blank {
		s += "\n" + s
	}
	return s
}

func (l *layout) ind() string {
	if l.indent {
		return " \t "
	}
	return ""
}

func (l *layout) sp() string {
	if l.spaces {
		return " "
	}
	return ""
}

func (l *layout) nl() string {
	s := ""
	if l.comment {
		if l.unicode {
			s = " ; naïve → comment"
		} else {
			s = " ; a comment { [ \" ( "
		}
	}
	if l.indent {
		s += "  "
	}
	s += "\n"
	if l.blank {
		s += "\n"
	}
	return s
}

func level(op string) int { return prec(op) }

// glue writes an operator followed by text; operator characters that touch form one lexeme
// ("Sticky chars together are returned from the lexer as a single lexeme"), so a blank is needed
// when the text itself starts with an operator character.
func (l *layout) glue(op, rhs string) string {
	if !l.spaces && len(rhs) > 0 && len(op) > 0 && vIsSticky(op[len(op)-1]) && vIsSticky(rhs[0]) {
		return op + " " + rhs
	}
	return op + l.sp() + rhs
}

func vIsSticky(c byte) bool {
	const sticky = "+*/=<>!-&|#%~"
	for i := 0; i < len(sticky); i++ {
		if sticky[i] == c {
			return true
		}
	}
	return false
}

func (l *layout) operand(n node.Type, needParens bool) string {
	s := l.expr(n)
	if needParens || (l.parens && isCompound(n)) {
		return "(" + s + ")"
	}
	return s
}

func isCompound(n node.Type) bool {
	switch n.(type) {
	case node.BinOp, node.UnOp:
		return true
	}
	return false
}

// list prints comma separated expressions; line breaks after commas are legal in array literals only.
func (l *layout) list(es []node.Type, inArray bool) string {
	s := ""
	for i, e := range es {
		if i > 0 {
			s += "," + l.sp()
			if l.blank && inArray {
				s += "\n"
			}
		}
		s += l.expr(e)
	}
	return s
}

// expr prints an expression.
func (l *layout) expr(n node.Type) string {
	switch x := n.(type) {
	case node.BinOp:
		lp, rp := false, false
		if lb, ok := x.Left.(node.BinOp); ok && level(lb.Op) < level(x.Op) {
			lp = true
		}
		if rb, ok := x.Right.(node.BinOp); ok && level(rb.Op) <= level(x.Op) {
			rp = true
		}
		if _, ok := x.Left.(node.Function); ok {
			lp = true
		}
		if _, ok := x.Right.(node.Function); ok {
			rp = true
		}
		rhs := l.operand(x.Right, rp)
		if l.pleaves && !rp {
			switch x.Right.(type) {
			case node.Name, node.Int, node.Float, node.Bool, node.String:
				// redundant parentheses around a name or literal; only in right operands: a
				// leftmost "(x)" directly after a name would read as a call
				rhs = "(" + rhs + ")"
			}
		}
		return l.operand(x.Left, lp) + l.sp() + l.glue(x.Op, rhs)
	case node.UnOp:
		_, isAtomic := x.Target.(node.BinOp)
		_, isUn := x.Target.(node.UnOp)
		_, isFn := x.Target.(node.Function)
		return l.glue(x.Op, l.operand(x.Target, isAtomic || isUn || isFn))[0:len(x.Op)] + l.operand(x.Target, isAtomic || isUn || isFn)
	case node.IndexAt:
		return l.operand(x.Ary, needsAtomParens(x.Ary)) + "[" + l.sp() + l.expr(x.At) + l.sp() + "]"
	case node.IndexFromTo:
		return l.operand(x.Ary, needsAtomParens(x.Ary)) + "[" + l.expr(x.From) + l.sp() + ":" + l.sp() + l.expr(x.To) + "]"
	case node.List:
		open := "["
		if l.blank {
			open = "[\n"
		}
		return open + l.list(x.Elems, true) + "]"
	case node.Call:
		return string(x.Name.(node.Name)) + "(" + l.list(x.Arguments.Elems, false) + ")"
	case node.Function:
		return "(" + l.list(x.Parameters.Elems, false) + ")" + l.sp() + l.glue("->", l.body(x.Body))
	}
	return Src(n)
}

func needsAtomParens(n node.Type) bool {
	switch n.(type) {
	case node.BinOp, node.UnOp, node.Function:
		return true
	}
	return false
}

// body prints a block position: a one-line statement or a braced multi-statement block.
func (l *layout) body(n node.Type) string {
	if b, ok := n.(node.Block); ok {
		s := "{" + l.nl() + l.cl()
		for _, st := range b.Body {
			s += l.ind() + l.stmt(st) + l.nl() + l.cl()
		}
		return s + l.ind() + "}"
	}
	return l.stmt(n)
}

func (l *layout) stmt(n node.Type) string {
	switch x := n.(type) {
	case node.Assign:
		return string(x.VarRef.(node.Name)) + l.sp() + l.glue("=", l.expr(x.Value))
	case node.If:
		return "if " + l.expr(x.Condition) + " " + l.body(x.TrueCase)
	case node.IfElse:
		return "if " + l.expr(x.Condition) + " " + l.body(x.TrueCase) + " else " + l.body(x.FalseCase)
	case node.While:
		return "while " + l.expr(x.Condition) + " " + l.body(x.Body)
	case node.For:
		return "for " + l.list(x.VarRefs.Elems, false) + " <- " + l.list(x.Iterators.Elems, false) + " " + l.body(x.Body)
	case node.Return:
		return "return " + l.expr(x.Target)
	case node.Yield:
		return "yield " + l.expr(x.Target)
	}
	return l.expr(n)
}

// c07Int is an integer literal written with one or two symbolic digits.
var c07Digits []string

func c07Int() (node.Type, string) {
	n := 1 + vrt.Choice("ndigits", 2)
	d := vrt.Bytes("digits", n)
	v := 0
	for i := 0; i < len(d); i++ {
		vrt.Assume(d[i] >= '0' && d[i] <= '9')
		v = v*10 + int(d[i]-'0')
	}
	return node.Int(v), d
}

// The printer prints node.Int through Src; literals with symbolic digits are represented as
// names in the tree that is printed and substituted afterwards. To keep the printer simple the
// harness instead uses small concrete ints in most places and one symbolic-digit literal per tree.

func c07Leaf() node.Type {
	switch vrt.Choice("leaf", 7) {
	case 0:
		return node.Name("a")
	case 1:
		return node.Name("foo")
	case 2:
		return node.Int(vrt.Choice("int", 3) * 7)
	case 3:
		return node.Bool(vrt.Bool("bool"))
	case 4:
		return node.String([...]string{"", "s", "a b", "x{y", "q;r"}[vrt.Choice("str", 5)])
	case 5:
		return node.Float([...]float64{0.5, 1.25, 12.75}[vrt.Choice("float", 3)])
	default:
		return node.List{Elems: []node.Type{node.Int(1), node.Name("b")}}
	}
}

var c07Levels = [...]string{"||", "==", "&", "-", "*"} // one operator per precedence level

func c07Op() string {
	if vrt.Param("allops", 0) == 1 {
		return AllBinOps[vrt.Choice("op", len(AllBinOps))]
	}
	return c07Levels[vrt.Choice("op", len(c07Levels))]
}

func c07Expr() node.Type {
	x, y, z := c07Leaf(), node.Name("b"), node.Int(3)
	switch vrt.Choice("shape", 12) {
	case 0:
		return node.BinOp{Op: c07Op(), Left: node.BinOp{Op: c07Op(), Left: x, Right: y}, Right: z}
	case 1:
		return node.BinOp{Op: c07Op(), Left: x, Right: node.BinOp{Op: c07Op(), Left: y, Right: z}}
	case 2:
		return node.UnOp{Op: UnOps[vrt.Choice("unop", 4)], Target: node.BinOp{Op: c07Op(), Left: x, Right: y}}
	case 3:
		return node.BinOp{Op: c07Op(), Left: node.UnOp{Op: UnOps[vrt.Choice("unop", 4)], Target: x}, Right: y}
	case 4:
		return node.BinOp{Op: c07Op(), Left: y, Right: node.UnOp{Op: UnOps[vrt.Choice("unop", 4)], Target: x}}
	case 5:
		return node.UnOp{Op: UnOps[vrt.Choice("unop", 4)], Target: node.IndexAt{Ary: x, At: z}}
	case 6:
		return node.IndexAt{Ary: node.BinOp{Op: c07Op(), Left: x, Right: y}, At: node.BinOp{Op: c07Op(), Left: y, Right: z}}
	case 7:
		return node.IndexFromTo{Ary: node.IndexAt{Ary: x, At: z}, From: y, To: node.BinOp{Op: c07Op(), Left: y, Right: z}}
	case 8:
		return node.Call{Name: node.Name("foo"), Arguments: node.List{Elems: []node.Type{x, node.BinOp{Op: c07Op(), Left: y, Right: z}}}}
	case 9:
		return node.UnOp{Op: UnOps[vrt.Choice("unop", 4)], Target: node.UnOp{Op: UnOps[vrt.Choice("unop2", 4)], Target: x}}
	case 10:
		return node.List{Elems: []node.Type{x, node.List{Elems: []node.Type{}}, node.BinOp{Op: c07Op(), Left: y, Right: z}}}
	default:
		return node.BinOp{Op: c07Op(), Left: node.Function{Parameters: node.List{Elems: []node.Type{node.Name("p"), node.Name("q")}}, Body: node.BinOp{Op: c07Op(), Left: node.Name("p"), Right: x}}, Right: y}
	}
}

// openIf reports whether a statement printed on one line ends in an `if` without `else`
// (a following `else` would attach to it).
func openIf(n node.Type) bool {
	switch x := n.(type) {
	case node.If:
		return true
	case node.IfElse:
		return openIf(x.FalseCase)
	case node.While:
		return openIf(x.Body)
	case node.For:
		return openIf(x.Body)
	case node.Assign:
		if f, ok := x.Value.(node.Function); ok {
			return openIf(f.Body)
		}
	}
	return false
}

func c07Stmt(d int, inner bool) node.Type {
	e := func() node.Type {
		if inner {
			return node.BinOp{Op: "<", Left: node.Name("a"), Right: node.Name("b")}
		}
		leaves := [...]node.Type{node.Name("b"), node.Int(2), node.UnOp{Op: "-", Target: node.Name("c")}}
		k := vrt.Choice("sleaf", 3)
		return node.BinOp{Op: [...]string{"<", "+", "=="}[k], Left: node.Name("a"), Right: leaves[k]}
	}
	body := func() node.Type {
		if d <= 0 {
			return e()
		}
		switch vrt.Choice("body", 3) {
		case 0:
			return c07Stmt(d-1, true)
		case 1:
			return node.Block{Body: []node.Type{c07Stmt(d-1, true), e()}}
		default:
			return e()
		}
	}
	nforms := 9
	if inner {
		nforms = 6
	}
	switch vrt.Choice("stmt", nforms) {
	case 0:
		return node.Assign{VarRef: node.Name("v"), Value: e()}
	case 1:
		return node.If{Condition: e(), TrueCase: body()}
	case 2:
		t := body()
		if openIf(t) {
			// a one-line `if` without else directly before `else` would capture it: such a body is
			// written as a braced block, which the printer does for node.Block only
			t = node.Block{Body: []node.Type{t, e()}}
		}
		return node.IfElse{Condition: e(), TrueCase: t, FalseCase: body()}
	case 3:
		return node.While{Condition: e(), Body: body()}
	case 4:
		return node.For{VarRefs: node.List{Elems: []node.Type{node.Name("i")}}, Iterators: node.List{Elems: []node.Type{e()}}, Body: body()}
	case 5:
		return node.Return{Target: e()}
	case 6:
		return node.For{VarRefs: node.List{Elems: []node.Type{node.Name("i"), node.Name("j")}}, Iterators: node.List{Elems: []node.Type{e(), node.Name("b")}}, Body: body()}
	case 7:
		return node.Yield{Target: e()}
	default:
		return node.Assign{VarRef: node.Name("f"), Value: node.Function{Parameters: node.List{Elems: []node.Type{node.Name("n")}}, Body: body()}}
	}
}

func c07Layout() *layout {
	if vrt.Param("layouts", 0) == 1 { // every combination
		l := &layout{parens: vrt.Bool("lay.parens"), spaces: vrt.Bool("lay.spaces"), comment: vrt.Bool("lay.comment"), blank: vrt.Bool("lay.blank"), clines: vrt.Bool("lay.clines"), indent: vrt.Bool("lay.indent"), pleaves: vrt.Bool("lay.pleaves")}
		if l.comment {
			l.unicode = vrt.Bool("lay.unicode")
		}
		return l
	}
	presets := [...]layout{{}, {spaces: true}, {parens: true, spaces: true}, {comment: true}, {comment: true, unicode: true, blank: true}, {blank: true, parens: true},
		{clines: true}, {clines: true, blank: true, indent: true, spaces: true}, {indent: true, comment: true}, {pleaves: true}, {pleaves: true, parens: true, spaces: true}}
	// param nlayouts: how many of the presets (the deep statement tier uses the contrasting ones:
	// plain, everything-with-comment-lines, parenthesised)
	order := [...]int{0, 7, 10, 4, 2, 8, 6, 5, 3, 1, 9}
	l := presets[order[vrt.Choice("layout", vrt.Param("nlayouts", len(presets)))]]
	return &l
}

func c07Check(t node.Type, text string) {
	vrt.Note("text", text)
	trees, err := parser.Parse(text)
	vrt.Assert(err == nil, "printed-tree-parses")
	vrt.Assert(len(trees) == 1, "one-statement")
	vrt.Assert(reflect.DeepEqual(trees[0], t), "parse(print(tree))==tree")
	vrt.Cover("round-trip")
}

func VerifC07Expr() {
	t := c07Expr()
	l := c07Layout()
	c07Check(t, l.stmt(t))
}

func VerifC07Stmt() {
	t := c07Stmt(vrt.Param("sdepth", 1), false)
	l := c07Layout()
	c07Check(t, l.stmt(t))
}

// VerifC07Digits: integer literals written with symbolic digits, inside an expression.
func VerifC07Digits() {
	lit1, d1 := c07Int()
	lit2, d2 := c07Int()
	op := c07Op()
	t := node.BinOp{Op: op, Left: lit1, Right: node.IndexAt{Ary: node.Name("a"), At: lit2}}
	text := d1 + " " + op + " a[" + d2 + "]"
	c07Check(t, text)
}
