//go:build verif

package vsess

import (
	"github.com/paulsonkoly/calc/internal/vrt"
	"github.com/paulsonkoly/calc/parser"
	"github.com/paulsonkoly/calc/types/node"
)

// Harnesses for C06 (the front end is total).

// frontEnd parses text and checks the contract of the result; returns whether it was accepted.
func frontEnd(text string, s *Session) bool {
	tree, err := parser.Parse(text)
	if err == nil {
		vrt.Cover("accepted")
		return true
	}
	vrt.Cover("rejected")
	_ = tree
	vrt.Assert(0 <= err.From() && err.From() <= err.To() && err.To() <= len(text), "error-span-inside-input")
	// displaying the error with its caret line never fails
	vrt.CaptureStart()
	node.VerifReportError(err, text)
	vrt.Captured()
	// and nothing of a rejected input is executed
	if s != nil {
		before := len(*s.CS)
		node.VerifProcessInput(text, parser.Type{}, s.VM, true)
		vrt.Assert(len(*s.CS) == before, "rejected-input-is-not-compiled")
		s.c09Clean("after-rejected-input")
	}
	return false
}

// VerifC06Text: every text of n bytes is parsed or rejected, in bounded time.
func VerifC06Text() {
	n := vrt.Param("n", 2)
	text := vrt.Bytes("text", n)
	if vrt.Param("ascii", 1) == 1 {
		for i := 0; i < len(text); i++ {
			vrt.Assume(text[i] < 0x80)
		}
	}
	vrt.Fuel(vrt.Param("fuel", 400000))
	frontEnd(text, nil)
}

var c06Vocab = [...]string{"1", "a", "(", ")", "[", "]", "{", "}", ",", ":", "+", "-", "->", "=", "==", "\n", "if", "else", "while", "for", "<-", "return", "yield", "\"s\"", "2.5", "true", "#", "!", ";c", "<", "&&", "*"}

// VerifC06Tokens: every sequence of up to k tokens of the grammar's vocabulary.
func VerifC06Tokens() {
	k := 1 + vrt.Choice("tokens", vrt.Param("maxtokens", 3))
	nv := vrt.Param("vocab", len(c06Vocab))
	text := ""
	for i := 0; i < k; i++ {
		if i > 0 && vrt.Bool("blank") {
			text += " "
		}
		text += c06Vocab[vrt.Choice("tok", nv)]
	}
	vrt.Note("text", text)
	vrt.Fuel(vrt.Param("fuel", 3000000))
	var s *Session
	if vrt.Param("session", 0) == 1 {
		s = New()
	}
	frontEnd(text, s)
}

var c06Prefixes = [...]string{"for i <-", "for i, j <- a,", "for i <- a {\n", "for i <- f(1,", "if x", "if x 1 else", "while x", "f = (a) ->", "f = (a, b) -> {\n",
	"{\n x = 1\n", "[1,", "f(", "x[1:", "x =", "return", "yield", "1 +", "a[1] ==", "!", "(a) -> a,"}

// VerifC06Continuations: a valid beginning of every statement form, at top level, after a
// complete statement or as the body of a loop, continued by up to 2 arbitrary tokens: syntax
// errors deep inside a construct are reported like any other.
func VerifC06Continuations() {
	text := c06Prefixes[vrt.Choice("prefix", len(c06Prefixes))]
	switch vrt.Choice("outer", 4) {
	case 1:
		text = "1\n" + text
	case 2:
		text = "for k <- a " + text
	case 3:
		text = "1 " + text
	}
	nv := vrt.Param("vocab", len(c06Vocab))
	for i := vrt.Choice("tokens", 3); i > 0; i-- {
		text += " " + c06Vocab[vrt.Choice("tok", nv)]
	}
	vrt.Note("text", text)
	vrt.Fuel(vrt.Param("fuel", 3000000))
	var s *Session
	if vrt.Param("session", 0) == 1 {
		s = New()
	}
	frontEnd(text, s)
}

// VerifC06Literals: number literals of any length (digits symbolic).
func VerifC06Literals() {
	lens := [...]int{1, 2, 18, 19, 20, 25}
	n := lens[vrt.Choice("digits", len(lens))]
	var d string
	if n <= 2 {
		d = vrt.Bytes("digits", n)
		for i := 0; i < len(d); i++ {
			vrt.Assume(d[i] >= '0' && d[i] <= '9')
		}
	} else {
		// long literals: the first two and the last digit are symbolic, the middle is 9s or 0s
		// (all-symbolic 19-digit multiplication chains are beyond the solver)
		hd := vrt.Bytes("head", 2)
		tl := vrt.Bytes("tail", 1)
		vrt.Assume(hd[0] >= '0' && hd[0] <= '9' && hd[1] >= '0' && hd[1] <= '9' && tl[0] >= '0' && tl[0] <= '9')
		mid := ""
		fill := "9"
		if vrt.Bool("zeros") {
			fill = "0"
		}
		for i := 0; i < n-3; i++ {
			mid += fill
		}
		d = hd + mid + tl
	}
	text := d
	switch vrt.Choice("form", 3) {
	case 1:
		text = d + ".5"
	case 2:
		text = "x = [" + d + "]"
	}
	frontEnd(text, nil)
}

// VerifC06Nesting: deeply nested and unbalanced brackets.
func VerifC06Nesting() {
	open := [...]string{"(", "[", "f(", "a["}
	clos := [...]string{")", "]", ")", "]"}
	k := vrt.Choice("kind", 4)
	depth := 1 + vrt.Choice("depth", vrt.Param("maxnest", 12))
	text := ""
	for i := 0; i < depth; i++ {
		text += open[k]
	}
	text += "1"
	missing := vrt.Choice("missing", 3) // 0 balanced, 1 one closer missing, 2 one too many
	closers := depth
	if missing == 1 {
		closers--
	} else if missing == 2 {
		closers++
	}
	for i := 0; i < closers; i++ {
		text += clos[k]
	}
	vrt.Fuel(vrt.Param("nestfuel", 20000000))
	ok := frontEnd(text, nil)
	vrt.Assert(ok == (missing == 0), "balanced-iff-accepted")
}
