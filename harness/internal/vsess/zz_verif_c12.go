//go:build verif

package vsess

import (
	"math"

	"github.com/paulsonkoly/calc/internal/vrt"
	"github.com/paulsonkoly/calc/types/node"
	"github.com/paulsonkoly/calc/types/value"
)

// Harnesses for C12 (an expression means the same wherever it is written): two spellings of the
// same computation are compiled and run in two fresh sessions holding the same (symbolic) global
// values, and must agree in error class and in value.

// SameValue is structural equality of results (floats by bit pattern or both NaN; functions equal
// as functions).
func SameValue(a, b value.Type) bool {
	if a.IsNil() || b.IsNil() {
		return a.IsNil() && b.IsNil()
	}
	if x, ok := a.ToInt(); ok {
		y, ok2 := b.ToInt()
		return ok2 && x == y
	}
	if x, ok := a.ToBool(); ok {
		y, ok2 := b.ToBool()
		return ok2 && x == y
	}
	if x, ok := a.ToString(); ok {
		y, ok2 := b.ToString()
		return ok2 && x == y
	}
	if x, ok := a.ToArray(); ok {
		y, ok2 := b.ToArray()
		if !ok2 || len(x) != len(y) {
			return false
		}
		for i := range x {
			if !SameValue(x[i], y[i]) {
				return false
			}
		}
		return true
	}
	if _, ok := a.ToFunction(); ok {
		_, ok2 := b.ToFunction()
		return ok2
	}
	// float
	if _, ok := b.ToInt(); ok {
		return false
	}
	if _, ok := b.ToBool(); ok {
		return false
	}
	if _, ok := b.ToString(); ok {
		return false
	}
	if _, ok := b.ToArray(); ok {
		return false
	}
	if _, ok := b.ToFunction(); ok {
		return false
	}
	return a.StrictEq(b) || (!a.StrictEq(a) && !b.StrictEq(b))
}

var _ = math.Float64bits

// Twin runs programs p1 and p2 in two sessions prepared identically and compares the outcomes.
type Twin struct {
	A, B *Session
	G    *Gen
}

func NewTwin() *Twin {
	a, b := New(), New()
	g := NewGen(a)
	g.Mirror = b
	return &Twin{A: a, B: b, G: g}
}

func (t *Twin) Compare(p1 node.Type, used1 bool, p2 node.Type, used2 bool, label string) {
	t.A.RunPre(t.G)
	t.B.RunPre(t.G)
	v1, e1 := t.A.Run(p1, used1)
	v2, e2 := t.B.Run(p2, used2)
	vrt.Assert(Class(e1) == Class(e2), label+"/same-error-class")
	if e1 == nil && e2 == nil && used1 && used2 {
		vrt.Assert(SameValue(v1, v2), label+"/same-value")
	}
	if e1 == nil {
		vrt.Cover("value")
	} else {
		vrt.Cover("runtime-error")
	}
}

// readBack returns the program `<stmts>; name` evaluated for its value.
func readBack(name string, stmts ...node.Type) node.Type {
	return blk(append(append([]node.Type{}, stmts...), nm(name))...)
}

func VerifC12Positions() {
	t := NewTwin()
	g := t.G
	var e node.Type
	if vrt.Param("sandwich", 1) == 1 && vrt.Bool("sandwich") {
		e = g.Sandwich()
	} else {
		e = g.Expr(vrt.Param("budget", 1))
	}
	c := func() node.Type { return node.Int(vrt.Int("lit")) }
	tmp := asg("t", e)
	// let binds t to the value of e through a parameter (legal for nil too, unlike assignment)
	let := func(body node.Type) node.Type { return blk(asg("lt", fn(body, "t")), call("lt", e)) }
	vrt.Note("e", Src(e))
	pair := vrt.Choice("pair", 11)
	if pp := vrt.Param("pair", -1); pp >= 0 {
		vrt.Assume(pair == pp)
	}
	switch pair {
	case 0: // used vs discarded: the value stored by an assignment is the same
		vrt.Note("pair", "x = e (used) vs x = e (discarded), then x")
		t.A.RunPre(g)
		t.B.RunPre(g)
		_, e1 := t.A.Run(asg("x", e), true)
		_, e2 := t.B.Run(asg("x", e), false)
		vrt.Assert(Class(e1) == Class(e2), "used-vs-discarded/same-error-class")
		v1, _ := t.A.Run(nm("x"), true)
		v2, _ := t.B.Run(nm("x"), true)
		vrt.Assert(SameValue(v1, v2), "used-vs-discarded/same-value")
		vrt.Cover("value")
		vrt.Cover("runtime-error")
	case 1: // function tail vs not tail
		vrt.Note("pair", "f = () -> e vs f = () -> {t = e; t}")
		t.Compare(blk(asg("f", fn(e)), call("f")), true, blk(asg("f", fn(let(nm("t")))), call("f")), true, "function-tail")
	case 2: // operand of an operator vs via a temporary (left)
		op := g.op()
		k := c()
		vrt.Note("pair", "e op c vs t = e; t op c")
		t.Compare(bin(op, e, k), true, blk(tmp, bin(op, nm("t"), k)), true, "left-operand")
	case 3: // right operand
		op := g.op()
		k := c()
		vrt.Note("pair", "c op e vs t = e; c op t")
		t.Compare(bin(op, k, e), true, blk(tmp, bin(op, k, nm("t"))), true, "right-operand")
	case 4: // deeper operand: c1 op1 (c2 op2 e)
		op1, op2 := g.op(), g.op()
		k1, k2 := c(), c()
		vrt.Note("pair", "c1 op1 (c2 op2 e) vs t = e; c1 op1 (c2 op2 t)")
		t.Compare(bin(op1, k1, bin(op2, k2, e)), true, blk(tmp, bin(op1, k1, bin(op2, k2, nm("t")))), true, "deep-operand")
	case 5: // deeper operand on the left: (e op2 c2) op1 c1
		op1, op2 := g.op(), g.op()
		k1, k2 := c(), c()
		vrt.Note("pair", "(e op2 c2) op1 c1 vs t = e; (t op2 c2) op1 c1")
		t.Compare(bin(op1, bin(op2, e, k2), k1), true, blk(tmp, bin(op1, bin(op2, nm("t"), k2), k1)), true, "deep-left-operand")
	case 6: // call argument
		g.funcs()
		vrt.Note("pair", "id(e) vs t = e; id(t)")
		t.Compare(call("id", e), true, let(call("id", nm("t"))), true, "call-argument")
	case 7: // array element
		k := c()
		vrt.Note("pair", "[c, e] vs t = e; [c, t]")
		t.Compare(node.List{Elems: []node.Type{k, e}}, true, let(node.List{Elems: []node.Type{k, nm("t")}}), true, "array-element")
	case 8: // index position
		vrt.Note("pair", "a[e] vs t = e; a[t]")
		t.Compare(node.IndexAt{Ary: g.arrGlobal(), At: e}, true, blk(tmp, node.IndexAt{Ary: g.arrGlobal(), At: nm("t")}), true, "index-position")
	case 9: // e op e vs t op t (e is pure: no calls are generated inside e here)
		op := g.op()
		vrt.Assume(!e.HasCall())
		vrt.Note("pair", "e op e vs t = e; t op t")
		t.Compare(bin(op, e, e), true, blk(tmp, bin(op, nm("t"), nm("t"))), true, "same-operands")
	default: // loop body vs plain
		vrt.Note("pair", "while-once { x = e } vs x = e")
		once := blk(asg("i", node.Int(0)), node.While{Condition: bin("<", nm("i"), node.Int(1)), Body: blk(asg("x", e), asg("i", bin("+", nm("i"), node.Int(1))))}, nm("x"))
		t.Compare(once, true, readBack("x", asg("x", e)), true, "loop-body")
	}
}

// VerifC12Trees: an operator tree e (every shape with up to `treeops` operators, literals
// symbolic) as the right or left operand of an operator whose other operand is itself compound,
// against the same computation through a temporary.
func VerifC12Trees() {
	t := NewTwin()
	g := t.G
	k := 1 + vrt.Choice("treeops", vrt.Param("treeops", 3))
	e := g.Tree(k)
	vrt.Note("e", Src(e))
	other := bin(g.op(), node.Int(vrt.Int("lit")), node.Int(vrt.Int("lit")))
	op := g.op()
	tmp := asg("t", e)
	if vrt.Bool("e-on-the-right") {
		// the left operand is evaluated first in both spellings (its failure, if any, comes first)
		t.Compare(bin(op, other, e), true, blk(asg("o", other), tmp, bin(op, nm("o"), nm("t"))), true, "tree-right-operand")
	} else {
		t.Compare(bin(op, e, other), true, blk(tmp, bin(op, nm("t"), other)), true, "tree-left-operand")
	}
}

// VerifC12CallOperands: an operand that hides a call inside an index, slice bound, array literal
// or unary operator (a[f(x)], s[k:f(x)], #s[k:f(x)], [k, f(x)] ...) next to a compound operand whose
// partial result is live during the call, against the same computation through a temporary.
func VerifC12CallOperands() {
	t := NewTwin()
	g := t.G
	mid := g.DeepMid()
	vrt.Note("e", Src(mid))
	other := bin(g.op(), node.Int(vrt.Int("lit")), node.Int(vrt.Int("lit")))
	op := g.op()
	tmp := asg("t", mid)
	if vrt.Bool("e-on-the-right") {
		// the left operand is evaluated first in both spellings (its failure, if any, comes first)
		t.Compare(bin(op, other, mid), true, blk(asg("o", other), tmp, bin(op, nm("o"), nm("t"))), true, "call-in-right-operand")
	} else {
		t.Compare(bin(op, mid, other), true, blk(tmp, bin(op, nm("t"), other)), true, "call-in-left-operand")
	}
}

// VerifC12Increment: x = x + 1, x = 1 + x and t = x; x = t + 1 agree for x of any kind, at top
// level (global) and inside a function (local).
func VerifC12Increment() {
	t := NewTwin()
	g := t.G
	x := g.poly(0)
	_ = x
	// the added literal is any int or float literal (the compiler has a shortcut for some of them)
	var one node.Type = node.Int(vrt.Int("addend"))
	if vrt.Bool("float-addend") {
		one = node.Float(math.Float64frombits(vrt.Uint64("addend.bits")))
	}
	forms := [...]node.Type{
		asg("p0", bin("+", nm("p0"), one)),
		asg("p0", bin("+", one, nm("p0"))),
		blk(asg("t", nm("p0")), asg("p0", bin("+", nm("t"), one))),
	}
	i, j := vrt.Choice("form1", 3), vrt.Choice("form2", 3)
	vrt.Assume(i < j)
	if vrt.Bool("local") {
		wrapf := func(st node.Type) node.Type {
			return blk(asg("f", fn(blk(asg("p0", nm("v")), st, nm("p0")), "v")), call("f", nm("p0")))
		}
		t.Compare(wrapf(forms[i]), true, wrapf(forms[j]), true, "increment-local")
	} else {
		used := vrt.Bool("used")
		t.Compare(readBack("p0", forms[i]), true, readBack("p0", forms[j]), true, "increment-global")
		_ = used
	}
}

// VerifC12Conditions: `if !c A else B` equals `if c B else A`; and a condition that is not a
// boolean is a type error in every position of if and while.
func VerifC12Conditions() {
	t := NewTwin()
	g := t.G
	c := g.poly(0)
	a, b := node.Int(vrt.Int("lit")), node.Int(vrt.Int("lit"))
	ctx := vrt.Choice("cctx", 5)
	place := func(st node.Type) (node.Type, bool) {
		switch ctx {
		case 0:
			return st, true
		case 1:
			return blk(st, node.Int(7)), true // discarded, mid-block
		case 2:
			return blk(asg("f", fn(st)), call("f")), true // function tail
		case 3:
			return blk(asg("f", fn(blk(st, node.Int(7)))), call("f")), true
		default:
			return st, false // script mode
		}
	}
	switch vrt.Choice("what", 4) {
	case 0:
		p1, u1 := place(node.IfElse{Condition: node.UnOp{Op: "!", Target: c}, TrueCase: a, FalseCase: b})
		p2, u2 := place(node.IfElse{Condition: c, TrueCase: b, FalseCase: a})
		t.Compare(p1, u1, p2, u2, "negated-condition")
	case 1: // if without else: non-boolean condition is a type error wherever the if stands
		p, u := place(node.If{Condition: c, TrueCase: a})
		t.A.RunPre(g)
		_, err := t.A.Run(p, u)
		isBool := false
		if v := t.A.M.LookUpGlobal("p0"); !v.IsNil() {
			_, isBool = v.ToBool()
		}
		if isBool {
			vrt.Assert(err == nil, "if/boolean-condition-accepted")
		} else {
			vrt.Assert(err != nil, "if/non-boolean-condition-is-an-error")
		}
		vrt.Cover("value")
		vrt.Cover("runtime-error")
	case 2: // if !c
		p, u := place(node.If{Condition: node.UnOp{Op: "!", Target: c}, TrueCase: a})
		t.A.RunPre(g)
		_, err := t.A.Run(p, u)
		_, isBool := t.A.M.LookUpGlobal("p0").ToBool()
		vrt.Assert((err == nil) == isBool, "if-not/condition-must-be-boolean")
		vrt.Cover("value")
		vrt.Cover("runtime-error")
	default: // while c (body makes the condition false so that a boolean condition terminates)
		p, u := place(node.While{Condition: c, Body: asg("p0", node.Bool(false))})
		if ctx == 2 || ctx == 3 {
			// inside a function p0 would become a local: use a parameter instead
			body := node.While{Condition: nm("q"), Body: asg("q", node.Bool(false))}
			if ctx == 2 {
				p = blk(asg("f", fn(body, "q")), call("f", c))
			} else {
				p = blk(asg("f", fn(blk(body, node.Int(7)), "q")), call("f", c))
			}
		}
		t.A.RunPre(g)
		_, err := t.A.Run(p, u)
		v := value.VerifPolyLast()
		_, isBool := v.ToBool()
		vrt.Assert((err == nil) == isBool, "while/condition-must-be-boolean")
		vrt.Cover("value")
		vrt.Cover("runtime-error")
	}
}

// VerifC12Cross: A op B for every pairing of operand classes against the same computation with
// each operand first bound to a variable (left first, as evaluation order demands).
func VerifC12Cross() {
	t := NewTwin()
	a, b, op := t.G.Cross()
	vrt.Note("e", Src(bin(op, a, b)))
	t.Compare(bin(op, a, b), true, blk(asg("t", a), asg("u", b), bin(op, nm("t"), nm("u"))), true, "operands-via-variables")
}
