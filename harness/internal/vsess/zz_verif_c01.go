//go:build verif

package vsess

import (
	"math"

	"github.com/paulsonkoly/calc/internal/vrt"
	"github.com/paulsonkoly/calc/types/node"
)

// Harnesses for C01 (compiled execution matches the definitional semantics): the implementation
// (symbol rewriting + compiler + VM) against the reference evaluator of ref.go, on the same tree
// and the same symbolic literals / preset globals.

type Pair struct {
	S  *Session
	Ev *REval
	G  *Gen
}

func NewPair() *Pair {
	s := New()
	ev := NewREval()
	g := NewGen(s)
	g.Ref = ev
	return &Pair{S: s, Ev: ev, G: g}
}

// Step runs one top-level statement on both sides and compares error class, value and output.
func (p *Pair) Step(prog node.Type, used bool, label string) (failed bool) {
	p.Ev.out = ""
	rv, rerr := p.Ev.Run(prog) // first: programs outside the reference's domain are dropped here
	vrt.CaptureStart()
	v, err := p.S.Run(prog, used)
	out := vrt.Captured()
	vrt.Assert(SameClass(Class(err), rerr), label+"/error-class-equals-reference")
	if err == nil && used {
		vrt.Assert(SameAsRef(v, rv), label+"/value-equals-reference")
	}
	vrt.Assert(out == p.Ev.out, label+"/output-equals-reference")
	return err != nil
}

func (p *Pair) Pre() {
	for _, d := range p.G.Pre {
		if _, e := p.Ev.Run(d); e != 0 {
			vrt.Fail("reference: helper definition failed")
		}
		if _, err := p.S.Run(d, false); err != nil {
			vrt.Fail("helper definition failed")
		}
	}
}

func VerifC01Expr() {
	p := NewPair()
	g := p.G
	ctx := vrt.Choice("ctx", vrt.Param("nctx", NCtx))
	if vrt.Param("ctx3", 0) == 1 {
		vrt.Assume(ctx < 3)
		ctx = [...]int{0, 3, 2}[ctx]
	}
	var e node.Type
	fam := vrt.Choice("family", 7)
	vrt.Assume(fam >= vrt.Param("fam_lo", 0) && fam <= vrt.Param("fam_hi", 6))
	switch fam {
	case 0:
		e = g.Expr(vrt.Param("budget", 1))
	case 1:
		e = g.Sandwich()
	case 2:
		e = g.Chain(vrt.Param("chain", 2))
	case 3:
		e = g.Same(1)
	case 4:
		e = g.Tree(1 + vrt.Choice("treeops", vrt.Param("treeops", 3)))
		if vrt.Bool("compound-left") {
			e = bin(g.op(), bin(g.op(), node.Int(vrt.Int("lit")), node.Int(vrt.Int("lit"))), e)
		}
	case 6:
		e = g.DeepOperand()
	default:
		vrt.Assume(StmtCtx(ctx))
		e = node.IfElse{Condition: g.Leaf(), TrueCase: g.Expr(1), FalseCase: g.Leaf()}
	}
	prog, used := Embed(ctx, e)
	vrt.Note("program", Src(prog))
	p.Pre()
	if p.Step(prog, used, "program") {
		vrt.Cover("runtime-error")
	} else {
		vrt.Cover("value")
	}
}

// stmtW is Stmt with output: some leaves write.
func (g *Gen) stmtW(d int) node.Type {
	st := g.Stmt(d)
	if vrt.Bool("then-write") {
		return blk(call("write", node.Int(vrt.Int("lit"))), st, call("write", node.String("|")))
	}
	return st
}

func VerifC01Stmt() {
	p := NewPair()
	st := p.G.stmtW(vrt.Param("sdepth", 1))
	prog, used := StmtEmbed(vrt.Choice("sctx", NStmtCtx), st)
	vrt.Note("program", Src(prog))
	if p.Step(prog, used, "program") {
		vrt.Cover("runtime-error")
	} else {
		vrt.Cover("value")
	}
	// a following statement sees the same globals on both sides
	p.Step(blk(nm("x")), true, "next-statement")
}

// VerifC01Logic: boolean structure over comparisons of operands of every scalar kind, floats
// (NaN, infinities) included: !(a < b), (a < b) && !(a >= b), in value and condition position.
func VerifC01Logic() {
	p := NewPair()
	g := p.G
	rels := [...]string{"<", "<=", ">", ">=", "==", "!="}
	cmp := func() node.Type { return bin(rels[vrt.Choice("rel", len(rels))], g.poly(0), g.poly(1)) }
	var e node.Type
	switch vrt.Choice("shape", 4) {
	case 0:
		e = node.UnOp{Op: "!", Target: cmp()}
	case 1:
		e = bin("&&", cmp(), node.UnOp{Op: "!", Target: cmp()})
	case 2:
		e = blk(asg("t", cmp()), node.UnOp{Op: "!", Target: nm("t")})
	default:
		e = bin("==", node.UnOp{Op: "!", Target: cmp()}, node.Bool(vrt.Bool("blit")))
	}
	var prog node.Type = e
	used := true
	switch vrt.Choice("position", 3) {
	case 1:
		if _, isBlk := e.(node.Block); !isBlk {
			prog = node.IfElse{Condition: e, TrueCase: ilit(1), FalseCase: ilit(2)}
		}
	case 2:
		if _, isBlk := e.(node.Block); !isBlk {
			prog = blk(asg("f", fn(e)), call("f"))
		}
	}
	vrt.Note("program", Src(prog))
	if p.Step(prog, used, "program") {
		vrt.Cover("runtime-error")
	} else {
		vrt.Cover("value")
	}
}

// litArr is an array literal of n symbolic ints.
func litArr(n int) node.Type {
	l := node.List{}
	for i := 0; i < n; i++ {
		l.Elems = append(l.Elems, lit())
	}
	return l
}

// VerifC01Arrays: arrays are values. An array built by concatenation (whose backing store has
// spare capacity) is extended several times, sliced, passed to functions and collected in loops;
// every array built on the way is observed at the end and must still hold what the semantics say.
func VerifC01Arrays() {
	p := NewPair()
	na, nb := vrt.Choice("len-a", 4), vrt.Choice("len-b", 3)
	var x node.Type = bin("+", litArr(na), litArr(nb))
	for k := vrt.Choice("more-concats", vrt.Param("concats", 3)); k > 0; k-- {
		x = bin("+", x, litArr(1))
	}
	p.Step(asg("x", x), true, "base")
	chained := vrt.Bool("chained-extension")
	ext := func(of string) node.Type {
		e := bin("+", nm(of), litArr(1+vrt.Choice("ext-len", 2)))
		if chained {
			e = bin("+", e, litArr(1)) // a chain: the second + works on the first one's result
		}
		return e
	}
	switch vrt.Choice("shape", 5) {
	case 0: // two extensions of the same array
		p.Step(asg("y", ext("x")), true, "first-extension")
		p.Step(asg("z", ext("x")), true, "second-extension")
	case 1: // through a function
		p.steps("define", false, asg("f", fn(bin("+", nm("a"), node.List{Elems: []node.Type{nm("v")}}), "a", "v")))
		p.Step(asg("y", call("f", nm("x"), lit())), true, "first-extension")
		p.Step(asg("z", call("f", nm("x"), lit())), true, "second-extension")
	case 2: // collected in a loop
		p.Step(asg("y", node.List{}), true, "init")
		p.Step(forl("d", call("fromto", ilit(0), ilit(3)), asg("y", bin("+", nm("y"), node.List{Elems: []node.Type{bin("+", nm("x"), node.List{Elems: []node.Type{nm("d")}})}}))), false, "collect")
		p.Step(asg("z", ext("x")), true, "extension-after-loop")
	case 3: // an extension of a slice of the array, then of the array
		n := na + nb
		lo := vrt.Choice("lo", n+1)
		hi := lo + vrt.Choice("hi", n+1-lo)
		p.Step(asg("y", bin("+", node.IndexFromTo{Ary: nm("x"), From: ilit(lo), To: ilit(hi)}, litArr(1))), true, "slice-extension")
		p.Step(asg("z", ext("x")), true, "extension")
	default: // an extension of an extension, twice
		p.Step(asg("y", ext("x")), true, "first-extension")
		p.Step(asg("z", ext("y")), true, "extension-of-extension")
		p.Step(asg("w", ext("y")), true, "second-extension-of-extension")
		p.Step(nm("z"), true, "first-extension-of-extension-kept")
	}
	p.Step(nm("x"), true, "base-kept")
	p.Step(nm("y"), true, "first-kept")
	p.Step(nm("z"), true, "second-kept")
	vrt.Cover("done")
}

// VerifC01Increment: `v = v + c` and `v = c + v` for every int or float literal c (the compiler
// turns some of them into an in-place increment) on a variable of any kind, global or local,
// against the reference; the kind of the result (int or float) is part of the comparison.
func VerifC01Increment() {
	p := NewPair()
	g := p.G
	v := g.poly(0)
	var c node.Type = node.Int(vrt.Int("addend"))
	if vrt.Bool("float-addend") {
		c = node.Float(math.Float64frombits(vrt.Uint64("addend.bits")))
	}
	var st node.Type
	if vrt.Bool("literal-first") {
		st = asg("p0", bin("+", c, v))
	} else {
		st = asg("p0", bin("+", v, c))
	}
	p.Pre()
	switch vrt.Choice("where", 3) {
	case 0:
		p.Step(st, true, "increment-global")
		p.Step(nm("p0"), true, "global-after-increment")
	case 1:
		p.Step(blk(st, nm("p0")), true, "increment-global-discarded")
	default:
		p.Step(blk(asg("f", fn(blk(asg("p0", nm("q")), st, nm("p0")), "q")), call("f", nm("p0"))), true, "increment-local")
	}
	// the kind shows in what the value does next
	p.Step(bin("&", nm("p0"), ilit(1)), true, "bit-operation-afterwards")
	vrt.Cover("done")
}

// VerifC01Cross: A op B for every pairing of operand classes (plain, indexed, sliced, call
// result, array element, negated, compound, compound under those), against the reference.
func VerifC01Cross() {
	p := NewPair()
	a, b, op := p.G.Cross()
	e := bin(op, a, b)
	prog, used := Embed([...]int{0, 3, 2}[vrt.Choice("ctx", 3)], e)
	vrt.Note("program", Src(prog))
	p.Pre()
	if p.Step(prog, used, "program") {
		vrt.Cover("runtime-error")
	} else {
		vrt.Cover("value")
	}
}

// VerifC01Nest: the statement nests of VerifC05Nest against the reference evaluator (value,
// output, error class), followed by a read of the global the leaves assign.
func VerifC01Nest() {
	p := NewPair()
	st := p.G.StmtLean(vrt.Param("leandepth", 2), vrt.Param("narrow", 1) == 1)
	prog, used := StmtEmbed(vrt.Choice("sctx", NStmtCtx), st)
	vrt.Note("program", Src(prog))
	p.Step(prog, used, "program")
	p.Step(blk(nm("x")), true, "next-statement")
	vrt.Cover("done")
}
