//go:build verif

// Package vrt is the harness API. Under the symbolic engine (gosym) every function here is
// intercepted by name and never executed; this source is the native implementation used to
// replay a counterexample (or a passing path) against the real build with `go test -overlay`.
package vrt

import (
	"encoding/json"
	"fmt"
	"io"
	"os"
	"strings"
)

type replayVal struct {
	Name string `json:"name"`
	W    int    `json:"w"`
	V    uint64 `json:"v"`
}

type replayFile struct {
	Harness string         `json:"harness"`
	Values  []replayVal    `json:"values"`
	Params  map[string]int `json:"params"`
}

type assumeFail struct{}
type assertFail struct{ label string }
type desync struct{ msg string }

var (
	vals   []replayVal
	pos    int
	notes  []string
	tryMsg string
	params map[string]int
)

func next(name string, w int) uint64 {
	if pos >= len(vals) {
		// inputs the model did not constrain read as zero
		pos++
		return 0
	}
	v := vals[pos]
	pos++
	if v.Name != name {
		panic(desync{fmt.Sprintf("replay desync: harness asks for %q, recorded %q", name, v.Name)})
	}
	return v.V
}

func Int(name string) int       { return int(next(name, 64)) }
func Int64(name string) int64   { return int64(next(name, 64)) }
func Uint64(name string) uint64 { return next(name, 64) }
func Int32(name string) int32   { return int32(next(name, 32)) }
func Byte(name string) byte     { return byte(next(name, 8)) }
func Bool(name string) bool     { return next(name, 0) != 0 }

// Choice returns a value in [0,n); the engine forks on it.
func Choice(name string, n int) int {
	v := int(next(name, 64))
	if v < 0 || v >= n {
		panic(assumeFail{})
	}
	return v
}

// Range returns a symbolic int with lo <= x <= hi.
func Range(name string, lo, hi int) int {
	v := int(next(name, 64))
	if v < lo || v > hi {
		panic(assumeFail{})
	}
	return v
}

// Param is a harness bound supplied by the check configuration (default def).
func Param(name string, def int) int {
	if v, ok := params[name]; ok {
		return v
	}
	return def
}

// Or / And / Not combine conditions without short-circuit branching (one solver term).
func Or(a, b bool) bool  { return a || b }
func And(a, b bool) bool { return a && b }
func Not(a bool) bool    { return !a }

// Concrete makes the engine fork over the feasible values of x.
func Concrete(x int) int { return x }

// Bytes returns a string of n symbolic bytes.
func Bytes(name string, n int) string {
	b := make([]byte, n)
	for i := range b {
		b[i] = byte(next(fmt.Sprintf("%s[%d]", name, i), 8))
	}
	return string(b)
}

func Assume(c bool) {
	if !c {
		panic(assumeFail{})
	}
}

func Assert(c bool, label string) {
	if !c {
		panic(assertFail{label})
	}
}

func Fail(label string)  { panic(assertFail{label}) }
func Cover(label string) {}
func Fuel(n int)         {}

// Try runs f and reports whether it ended in a Go panic (harness control panics pass through).
func Try(f func()) (panicked bool) {
	defer func() {
		if r := recover(); r != nil {
			switch r.(type) {
			case assumeFail, assertFail, desync:
				panic(r)
			}
			tryMsg = fmt.Sprint(r)
			panicked = true
		}
	}()
	f()
	return false
}

func TryMsg() string { return tryMsg }

func Note(label string, v any) { notes = append(notes, label+"="+fmt.Sprint(v)) }

// SetStdin makes os.Stdin deliver exactly s.
func SetStdin(s string) {
	f, err := os.CreateTemp("", "vrtstdin")
	if err != nil {
		panic(err)
	}
	os.Remove(f.Name())
	f.WriteString(s)
	f.Seek(0, 0)
	os.Stdin = f
}

func StdinChunks() {}

// TempFile creates a file holding content and returns its name (the engine keeps the content in a
// model of the file system: os.Open of the name reads it back).
func TempFile(content string) string {
	f, err := os.CreateTemp("", "vrtfile")
	if err != nil {
		panic(err)
	}
	f.WriteString(content)
	f.Close()
	tempFiles = append(tempFiles, f.Name())
	return f.Name()
}

var tempFiles []string

var capFile, capSaved *os.File

// CaptureStart redirects what the program prints (os.Stdout) into a buffer.
func CaptureStart() {
	f, err := os.CreateTemp("", "vrtout")
	if err != nil {
		panic(err)
	}
	os.Remove(f.Name())
	if capSaved == nil {
		capSaved = os.Stdout
	}
	capFile = f
	os.Stdout = f
}

// CapturedAll returns everything written since CaptureStart, the runtime error report included.
func CapturedAll() string {
	if capFile == nil {
		return ""
	}
	os.Stdout = capSaved
	capFile.Seek(0, 0)
	b, _ := io.ReadAll(capFile)
	capFile.Close()
	capFile = nil
	return string(b)
}

// Captured returns what was written since CaptureStart, up to the interpreter's runtime error
// report (which is not program output), and stops capturing.
func Captured() string {
	if capFile == nil {
		return ""
	}
	os.Stdout = capSaved
	capFile.Seek(0, 0)
	b, _ := io.ReadAll(capFile)
	capFile.Close()
	capFile = nil
	s := string(b)
	if i := strings.Index(s, "RUNTIME ERROR : "); i >= 0 {
		s = s[:i]
	}
	return s
}

// Run replays the harness named in $VRT_REPLAY and returns a one-line outcome.
func Run(harnesses map[string]func()) (outcome string) {
	path := os.Getenv("VRT_REPLAY")
	b, err := os.ReadFile(path)
	if err != nil {
		return "error cannot read replay file: " + err.Error()
	}
	var rf replayFile
	if err := json.Unmarshal(b, &rf); err != nil {
		return "error bad replay file: " + err.Error()
	}
	name := rf.Harness
	if i := strings.LastIndex(name, "."); i >= 0 {
		name = name[i+1:]
	}
	h, ok := harnesses[name]
	if !ok {
		return "error unknown harness " + name
	}
	vals, pos, notes, params = rf.Values, 0, nil, rf.Params
	defer func() {
		for _, f := range tempFiles {
			os.Remove(f)
		}
		tempFiles = nil
		for _, n := range notes {
			fmt.Println("VRT-NOTE: " + n)
		}
		if r := recover(); r != nil {
			switch x := r.(type) {
			case assumeFail:
				outcome = "assume-false"
			case assertFail:
				outcome = "assert " + x.label
			case desync:
				outcome = "desync " + x.msg
			default:
				outcome = "panic " + strings.SplitN(fmt.Sprint(r), "\n", 2)[0]
			}
		}
	}()
	h()
	return "ok"
}
