//go:build verif

package main

import (
	"strconv"
	"strings"

	"github.com/paulsonkoly/calc/internal/vrt"
	"github.com/paulsonkoly/calc/types/node"
)

// Harness for C15 at session level: a statement whose function body is about as long as a jump
// can span either works or is refused by the compiler, and a refused statement is never executed,
// neither at once nor as left-over code in front of a later statement. The parser is replaced by
// a stub that hands processInput the prebuilt trees (parsing 32k lines is not the subject).

type c15Parser struct {
	progs [][]node.Type
	next  *int
}

func (p c15Parser) Parse(string) ([]node.Type, node.ParserError) {
	t := p.progs[*p.next]
	*p.next++
	return t, nil
}

func VerifC15Session() {
	// f = () -> { x = 0; x = x + 1 (n times); x }: one instruction per increment
	n := vrt.Concrete(vrt.Range("increments", 32767-vrt.Param("below", 6), 32767+vrt.Param("above", 3)))
	inc := node.Assign{VarRef: node.Name("x"), Value: node.BinOp{Op: "+", Left: node.Name("x"), Right: node.Int(1)}}
	body := make([]node.Type, 0, n+2)
	body = append(body, node.Assign{VarRef: node.Name("x"), Value: node.Int(0)})
	for i := 0; i < n; i++ {
		body = append(body, inc)
	}
	body = append(body, node.Name("x"))
	def := node.Assign{VarRef: node.Name("f"), Value: node.Function{Parameters: node.List{}, Body: node.Block{Body: body}}}
	use := node.Call{Name: node.Name("f"), Arguments: node.List{}}
	next := 0
	p := c15Parser{progs: [][]node.Type{{def}, {use}}, next: &next}
	m := newVM()
	refused := vrt.Try(func() { node.VerifProcessInput("definition", p, m, true) })
	if refused {
		// the compiler's refusal ends the process: nothing of the statement can run later
		vrt.Cover("refused")
		return
	}
	vrt.CaptureStart()
	node.VerifProcessInput("use", p, m, true)
	out := vrt.Captured()
	if strings.HasPrefix(out, "> ") {
		vrt.Assert(out == "> "+strconv.Itoa(n)+"\n", "long-function-computes-its-value")
		vrt.Cover("works")
	} else {
		// the session survived a refusal: then the refused definition must not exist
		vrt.Assert(strings.Contains(out, "RUNTIME ERROR"), "refused-definition-left-nothing-behind")
	}
}
