//go:build verif

package main_test

import (
	"strings"

	"github.com/paulsonkoly/calc/builtin"
	"github.com/paulsonkoly/calc/internal/vrt"
	"github.com/paulsonkoly/calc/memory"
	"github.com/paulsonkoly/calc/parser"
	"github.com/paulsonkoly/calc/types/bytecode"
	"github.com/paulsonkoly/calc/types/compresult"
	"github.com/paulsonkoly/calc/types/dbginfo"
	"github.com/paulsonkoly/calc/types/node"
	"github.com/paulsonkoly/calc/types/value"
	"github.com/paulsonkoly/calc/vm"
)

// VerifSelfTest is translator validation: the repository's own table of programs is pushed
// through the symbolic engine (lexer, parser, symbol rewriting, compiler, VM all interpreted from
// SSA) and must produce exactly the values the repository's tests expect.
func VerifSelfTest() {
	i := vrt.Choice("case", len(testData))
	test := testData[i]
	m := memory.New()
	cs := []bytecode.Type{}
	ds := []value.Type{}
	dbg := make(dbginfo.Type)
	cr := compresult.Type{CS: &cs, DS: &ds, Dbg: &dbg}
	builtin.Load(cr)
	virtM := vm.New(m, cr)
	ast, perr := parser.Parse(test.input)
	if test.parseError != nil {
		vrt.Assert(perr != nil && strings.HasPrefix(perr.Error(), test.parseError.Error()), "expected-parse-error")
		vrt.Cover("parse-error")
		return
	}
	vrt.Assert(perr == nil, "parses")
	var v value.Type
	var err error
	for _, stmnt := range ast {
		stmnt = stmnt.STRewrite(node.SymTbl{})
		node.ByteCode(stmnt, cr)
		v, err = virtM.Run(true)
	}
	vrt.Assert(test.value.StrictEq(v), "expected-value")
	vrt.Assert(err == test.runtimeError, "expected-error")
	vrt.Cover("ran")
}
