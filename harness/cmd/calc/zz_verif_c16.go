//go:build verif

package main

import (
	"io"
	"strings"

	"github.com/paulsonkoly/calc/builtin"
	"github.com/paulsonkoly/calc/flags"
	"github.com/paulsonkoly/calc/internal/vrt"
	"github.com/paulsonkoly/calc/memory"
	"github.com/paulsonkoly/calc/parser"
	"github.com/paulsonkoly/calc/types/bytecode"
	"github.com/paulsonkoly/calc/types/compresult"
	"github.com/paulsonkoly/calc/types/dbginfo"
	"github.com/paulsonkoly/calc/types/node"
	"github.com/paulsonkoly/calc/types/value"
	"github.com/paulsonkoly/calc/vm"
)

// Harness for C16, part 2: the same statement computes the same value and output when passed
// with -eval (the real main function), typed into the REPL and read from a script file (the real
// node.Loop over a model reader).

var c16Programs = [...]string{
	"1+2",
	"\"a\"+\"b\"",
	"[1,2][0]",
	"write(7)",
	"if 1 < 2 3 else 4",
	"{\nf = (n) -> n * 2\nf(21)\n}",
	"{\nx = 0\nfor i <- fromto(0,3) x = x + i\nx\n}",
	"{\nk = 3\ng = (a, b) -> {\n  t = a + k\n  t * b\n}\ng(1, 2)\n}",
	"{\nwrite(\"{\")\nwrite(\"b\")\n}",
	"1/0",
}

func newVM() *vm.Type {
	m := memory.New()
	cs := []bytecode.Type{}
	ds := []value.Type{}
	dbg := make(dbginfo.Type)
	cr := compresult.Type{CS: &cs, DS: &ds, Dbg: &dbg}
	builtin.Load(cr)
	return vm.New(m, cr)
}

func loopOver(text string, file bool) string {
	rd := &node.VerifLines{}
	for _, ln := range strings.Split(text, "\n") {
		if file {
			ln += "\n"
		}
		rd.Lines = append(rd.Lines, ln)
		rd.Errs = append(rd.Errs, nil)
	}
	rd.Errs = append(rd.Errs, io.EOF)
	vrt.CaptureStart()
	node.VerifLoop(rd, parser.Type{}, newVM(), !file)
	return vrt.Captured()
}

func VerifC16Modes() {
	prog := c16Programs[vrt.Choice("program", len(c16Programs))]
	vrt.Note("program", prog)
	// -eval
	*flags.EvalFlag = prog
	vrt.CaptureStart()
	main()
	evalOut := vrt.Captured()
	// REPL
	replOut := loopOver(prog, false)
	// script file, with the value written explicitly
	fileOut := loopOver(prog, true)
	// the REPL prefixes the value with "> " and quotes strings; written output comes first
	want := replOut
	want = strings.Replace(want, "> \"", "", 1)
	want = strings.Replace(want, "> ", "", 1)
	want = strings.Replace(want, "\"\n", "\n", 1)
	vrt.Assert(evalOut == want, "eval-equals-repl")
	// a script prints exactly what the program writes: the REPL output minus the echoed value
	idx := strings.Index(replOut, "> ")
	written := replOut
	if idx >= 0 {
		written = replOut[:idx]
	}
	vrt.Assert(fileOut == written, "script-output-equals-repl-written-output")
	vrt.Cover("done")
}
