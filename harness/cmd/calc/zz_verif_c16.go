//go:build verif

package main

import (
	"io"
	"strings"

	"github.com/paulsonkoly/calc/builtin"
	"github.com/paulsonkoly/calc/flags"
	"github.com/paulsonkoly/calc/internal/vrt"
	"github.com/paulsonkoly/calc/memory"
	"github.com/paulsonkoly/calc/parser"
	"github.com/paulsonkoly/calc/types/bytecode"
	"github.com/paulsonkoly/calc/types/compresult"
	"github.com/paulsonkoly/calc/types/dbginfo"
	"github.com/paulsonkoly/calc/types/node"
	"github.com/paulsonkoly/calc/types/value"
	"github.com/paulsonkoly/calc/vm"
)

// Harness for C16, part 2: the same statement computes the same value and output when passed
// with -eval (the real main function), typed into the REPL and read from a script file (the real
// node.Loop over a model reader).

var c16Programs = [...]string{
	"1+2",
	"\"a\"+\"b\"",
	"[1,2][0]",
	"write(7)",
	"if 1 < 2 3 else 4",
	"{\nf = (n) -> n * 2\nf(21)\n}",
	"{\nx = 0\nfor i <- fromto(0,3) x = x + i\nx\n}",
	"{\nk = 3\ng = (a, b) -> {\n  t = a + k\n  t * b\n}\ng(1, 2)\n}",
	"{\nwrite(\"{\")\nwrite(\"b\")\n}",
	"1/0",
	"write(\"x\ny\")",
	"[1,\n2,\n3][1]",
	// one physical line longer than any reader buffer
	"write(#\"" + strings.Repeat("x", 5000) + "\")",
	"write(#[" + strings.Repeat("1000000000001, ", 300) + "1])",
	"{\ns = \"" + strings.Repeat("y", 4090) + "\"\nwrite(#s)\n}",
	"{\nwrite(1)\nwrite(#\"" + strings.Repeat("z", 70000) + "\")\nwrite(2)\n}",
}

func newVM() *vm.Type {
	m := memory.New()
	cs := []bytecode.Type{}
	ds := []value.Type{}
	dbg := make(dbginfo.Type)
	cr := compresult.Type{CS: &cs, DS: &ds, Dbg: &dbg}
	builtin.Load(cr)
	return vm.New(m, cr)
}

func loopOver(text string, file bool) string {
	if file {
		// the real file reader over the script text, with or without a final line terminator
		if vrt.Bool("file-ends-with-newline") {
			text += "\n"
		}
		vrt.CaptureStart()
		node.VerifFileLoop(text, parser.Type{}, newVM(), false)
		return vrt.Captured()
	}
	rd := &node.VerifLines{}
	for _, ln := range strings.Split(text, "\n") {
		rd.Lines = append(rd.Lines, ln)
		rd.Errs = append(rd.Errs, nil)
	}
	rd.Errs = append(rd.Errs, io.EOF)
	vrt.CaptureStart()
	node.VerifLoop(rd, parser.Type{}, newVM(), !file)
	return vrt.Captured()
}

func VerifC16Modes() {
	prog := c16Programs[vrt.Choice("program", len(c16Programs))]
	vrt.Note("program", prog)
	// -eval
	*flags.EvalFlag = prog
	vrt.CaptureStart()
	main()
	evalOut := vrt.Captured()
	// REPL
	replOut := loopOver(prog, false)
	// script file, with the value written explicitly
	fileOut := loopOver(prog, true)
	// the REPL prefixes the value with "> " and quotes strings; written output comes first
	want := replOut
	want = strings.Replace(want, "> \"", "", 1)
	want = strings.Replace(want, "> ", "", 1)
	want = strings.Replace(want, "\"\n", "\n", 1)
	vrt.Assert(evalOut == want, "eval-equals-repl")
	// a script prints exactly what the program writes: the REPL output minus the echoed value
	idx := strings.Index(replOut, "> ")
	written := replOut
	if idx >= 0 {
		written = replOut[:idx]
	}
	vrt.Assert(fileOut == written, "script-output-equals-repl-written-output")
	vrt.Cover("done")
}

var c16Lines = [...]string{
	"a = a + 1",
	"c = 5",
	"if 1 < 2 a = 10 else b = 20",
	"if 2 < 1 a = 30 else b = 40",
	"while a < 3 a = a + 1",
	"for i <- fromto(0, 2) b = b + i",
	"f = (n) -> n + a",
	"b = f(2)",
	"write(toa(a) + \"\\n\")",
	"if a < 5 write(\"s\\n\")",
	"[a, b][0]",
	"{\na = a * 2\nb = b + a\n}",
}

// stripEcho removes the REPL's echo of each statement's value ("> ..." lines).
func stripEcho(s string) string {
	out := ""
	for _, ln := range strings.SplitAfter(s, "\n") {
		if strings.HasPrefix(ln, "> ") {
			continue
		}
		out += ln
	}
	return out
}

// VerifC16Script: a script of several statements run from a file (results discarded) leaves the
// same state and writes the same output as the same statements typed into the REPL.
func VerifC16Script() {
	k := vrt.Param("scriptlen", 3)
	text := "a = 0\nb = 0\nc = 0\nf = (n) -> n"
	for i := 0; i < k; i++ {
		text += "\n" + c16Lines[vrt.Choice("line", len(c16Lines))]
	}
	text += "\nwrite(toa([a, b, c]) + \"\\n\")"
	vrt.Note("script", text)
	replOut := stripEcho(loopOver(text, false))
	fileOut := loopOver(text, true)
	vrt.Assert(fileOut == replOut, "script-equals-repl")
	vrt.Cover("done")
}
