//go:build verif

package value

import (
	"math"

	"github.com/paulsonkoly/calc/internal/vrt"
	"github.com/paulsonkoly/calc/types/bytecode"
)

// Harnesses for C11 (operator algebra) and C15-H2 (function value packing).
// Only the exported API of package value is used, so that the checks survive refactoring.

const (
	kNil = iota
	kInt
	kFloat
	kString
	kArray
	kBool
	kFunc
)

func vKind(v Type) int {
	if v.IsNil() {
		return kNil
	}
	if _, ok := v.ToInt(); ok {
		return kInt
	}
	if _, ok := v.ToBool(); ok {
		return kBool
	}
	if _, ok := v.ToString(); ok {
		return kString
	}
	if _, ok := v.ToArray(); ok {
		return kArray
	}
	if _, ok := v.ToFunction(); ok {
		return kFunc
	}
	return kFloat
}

// vGen builds an arbitrary well-formed value: kind chosen by the engine, payload symbolic.
// depth bounds array nesting, maxLen bounds string/array length.
func vGen(name string, depth, maxLen int, allowNil bool) Type {
	nk := 7
	switch vrt.Choice(name+".kind", nk) {
	case kNil:
		vrt.Assume(allowNil)
		return Nil
	case kInt:
		return NewInt(vrt.Int(name + ".int"))
	case kFloat:
		return NewFloat(math.Float64frombits(vrt.Uint64(name + ".fbits")))
	case kString:
		n := vrt.Choice(name+".len", maxLen+1)
		return NewString(vrt.Bytes(name+".s", n))
	case kArray:
		vrt.Assume(depth > 0)
		n := vrt.Choice(name+".len", maxLen+1)
		a := make([]Type, 0, n)
		for i := 0; i < n; i++ {
			a = append(a, vGen(name+".e", depth-1, maxLen, false))
		}
		return NewArray(a)
	case kBool:
		return NewBool(vrt.Bool(name + ".bool"))
	default:
		nd := vrt.Int(name + ".node")
		pc := vrt.Int(name + ".pc")
		lc := vrt.Int(name + ".lc")
		vrt.Assume(nd >= 0 && nd < 1<<20 && pc >= 0 && pc < 256 && lc >= pc && lc < 512)
		return NewFunction(nd, nil, pc, lc)
	}
}

func vFloat(v Type) float64 {
	// value of a float Type through the exported API: strict equality against a probe is not
	// possible for all 2^64 patterns, so read it the way the package does
	return v.f()
}

// sameFloat: identical bit patterns (decided without the solver when both sides are the same
// computation), else numerically equal or both NaN.
func sameFloat(a, b float64) bool {
	return math.Float64bits(a) == math.Float64bits(b) || a == b || (a != a && b != b)
}

func numAsFloat(v Type) float64 {
	if i, ok := v.ToInt(); ok {
		return float64(i)
	}
	return vFloat(v)
}

// expectErr asserts the documented failure: ErrNil if an operand is nil, else ErrType.
func expectErr(r Type, err error, anyNil bool, label string) {
	if anyNil {
		vrt.Assert(err == ErrNil, label+"/nil-operand-is-nil-error")
	} else {
		vrt.Assert(err == ErrType, label+"/undocumented-pairing-is-type-error")
	}
	vrt.Assert(r.IsNil(), label+"/error-result-is-nil")
}

func VerifC11Arith() {
	ml := vrt.Param("maxlen", 2)
	a := vGen("a", 1, ml, true)
	b := vGen("b", 1, ml, true)
	ops := [...]bytecode.OpCode{bytecode.ADD, bytecode.SUB, bytecode.MUL, bytecode.DIV}
	op := ops[vrt.Choice("op", 4)]
	r, err := a.Arith(op, b)
	ka, kb := vKind(a), vKind(b)
	switch {
	case ka == kInt && kb == kInt:
		vrt.Cover("int-int")
		x, _ := a.ToInt()
		y, _ := b.ToInt()
		if op == bytecode.DIV && y == 0 {
			vrt.Assert(err == ErrZeroDiv && r.IsNil(), "int/0-is-zero-division-error")
			return
		}
		var want int
		switch op {
		case bytecode.ADD:
			want = x + y
		case bytecode.SUB:
			want = x - y
		case bytecode.MUL:
			want = x * y
		default:
			want = x / y
		}
		got, ok := r.ToInt()
		vrt.Assert(err == nil && ok, "int-op-int-is-int")
		vrt.Assert(got == want, "int-arith-value")
	case (ka == kInt || ka == kFloat) && (kb == kInt || kb == kFloat):
		vrt.Cover("float-promotion")
		x, y := numAsFloat(a), numAsFloat(b)
		var want float64
		switch op {
		case bytecode.ADD:
			want = x + y
		case bytecode.SUB:
			want = x - y
		case bytecode.MUL:
			want = x * y
		default:
			want = x / y
		}
		vrt.Assert(err == nil && vKind(r) == kFloat, "mixed-arith-promotes-to-float")
		vrt.Assert(sameFloat(vFloat(r), want), "float-arith-value")
	case ka == kString && kb == kString && op == bytecode.ADD:
		vrt.Cover("string-concat")
		x, _ := a.ToString()
		y, _ := b.ToString()
		got, ok := r.ToString()
		vrt.Assert(err == nil && ok, "string+string-is-string")
		vrt.Assert(got == x+y, "string-concat-value")
		l, lerr := r.Len()
		n, _ := l.ToInt()
		vrt.Assert(lerr == nil && n == len(x)+len(y), "len(a+b)=len(a)+len(b)")
	case ka == kArray && kb == kArray && op == bytecode.ADD:
		vrt.Cover("array-concat")
		x, _ := a.ToArray()
		y, _ := b.ToArray()
		got, ok := r.ToArray()
		vrt.Assert(err == nil && ok, "array+array-is-array")
		vrt.Assert(len(got) == len(x)+len(y), "len(a+b)=len(a)+len(b)")
		for i := range got {
			var w Type
			if i < len(x) {
				w = x[i]
			} else {
				w = y[i-len(x)]
			}
			vrt.Assert(got[i].StrictEq(w) || vKind(w) == kFloat && vKind(got[i]) == kFloat && sameFloat(vFloat(w), vFloat(got[i])), "array-concat-element")
		}
	default:
		vrt.Cover("error")
		expectErr(r, err, ka == kNil || kb == kNil, "arith")
	}
}

func VerifC11Mod() {
	a := vGen("a", 1, 1, true)
	b := vGen("b", 1, 1, true)
	r, err := a.Mod(b)
	x, okx := a.ToInt()
	y, oky := b.ToInt()
	if okx && oky {
		if y == 0 {
			vrt.Cover("mod-zero")
			vrt.Assert(err == ErrZeroDiv && r.IsNil(), "int%0-is-zero-division-error")
			return
		}
		vrt.Cover("mod")
		got, ok := r.ToInt()
		vrt.Assert(err == nil && ok && got == x%y, "int-mod-value")
		return
	}
	vrt.Cover("error")
	expectErr(r, err, a.IsNil() || b.IsNil(), "mod")
}

func relResult(op bytecode.OpCode, a, b Type) (bool, bool) {
	r, err := a.Relational(op, b)
	if err != nil {
		return false, false
	}
	v, ok := r.ToBool()
	return v, ok
}

func VerifC11Rel() {
	a := vGen("a", 1, 1, true)
	b := vGen("b", 1, 1, true)
	ka, kb := vKind(a), vKind(b)
	ops := [...]bytecode.OpCode{bytecode.LT, bytecode.GT, bytecode.LE, bytecode.GE}
	if (ka == kInt || ka == kFloat) && (kb == kInt || kb == kFloat) {
		vrt.Cover("numeric")
		lt, ok1 := relResult(bytecode.LT, a, b)
		gt, ok2 := relResult(bytecode.GT, a, b)
		le, ok3 := relResult(bytecode.LE, a, b)
		ge, ok4 := relResult(bytecode.GE, a, b)
		vrt.Assert(ok1 && ok2 && ok3 && ok4, "numeric-relational-is-bool")
		// reference ordering
		if ka == kInt && kb == kInt {
			x, _ := a.ToInt()
			y, _ := b.ToInt()
			vrt.Assert(lt == (x < y) && gt == (x > y) && le == (x <= y) && ge == (x >= y), "int-ordering")
		} else {
			x, y := numAsFloat(a), numAsFloat(b)
			vrt.Assert(lt == (x < y) && gt == (x > y) && le == (x <= y) && ge == (x >= y), "float-ordering")
		}
		// mutual consistency with the operands swapped and with ==
		gtS, _ := relResult(bytecode.GT, b, a)
		leS, _ := relResult(bytecode.LE, b, a)
		vrt.Assert(lt == gtS, "a<b iff b>a")
		vrt.Assert(ge == leS, "a>=b iff b<=a")
		eq, eerr := a.Eq(bytecode.EQ, b)
		e, eok := eq.ToBool()
		vrt.Assert(eerr == nil && eok, "numeric-eq-is-bool")
		vrt.Assert(le == (lt || e), "a<=b iff a<b or a==b")
		vrt.Assert(ge == (gt || e), "a>=b iff a>b or a==b")
		return
	}
	vrt.Cover("error")
	op := ops[vrt.Choice("op", 4)]
	r, err := a.Relational(op, b)
	expectErr(r, err, ka == kNil || kb == kNil, "relational")
}

func VerifC11Logic() {
	a := vGen("a", 1, 1, true)
	b := vGen("b", 1, 1, true)
	and := vrt.Bool("and")
	op := bytecode.OR
	if and {
		op = bytecode.AND
	}
	r, err := a.Logic(op, b)
	if x, ok := a.ToInt(); ok {
		if y, ok := b.ToInt(); ok {
			vrt.Cover("int")
			got, gok := r.ToInt()
			want := x | y
			if and {
				want = x & y
			}
			vrt.Assert(err == nil && gok && got == want, "int-bitwise-value")
			return
		}
	}
	if x, ok := a.ToBool(); ok {
		if y, ok := b.ToBool(); ok {
			vrt.Cover("bool")
			got, gok := r.ToBool()
			want := x || y
			if and {
				want = x && y
			}
			vrt.Assert(err == nil && gok && got == want, "bool-logic-value")
			return
		}
	}
	vrt.Cover("error")
	expectErr(r, err, a.IsNil() || b.IsNil(), "logic")
}

func VerifC11Shift() {
	a := vGen("a", 1, 1, true)
	b := vGen("b", 1, 1, true)
	left := vrt.Bool("left")
	op := bytecode.RSH
	if left {
		op = bytecode.LSH
	}
	r, err := a.Shift(op, b)
	x, okx := a.ToInt()
	y, oky := b.ToInt()
	if okx && oky {
		vrt.Cover("int")
		got, gok := r.ToInt()
		// every count yields an int and never a fault; the value is pinned down where the
		// language description is unambiguous (count in 0..63, non-negative left operand for >>)
		vrt.Assert(err == nil && gok, "int-shift-is-int")
		if y >= 0 && y < 64 {
			if left {
				vrt.Assert(got == x<<uint(y), "lsh-value")
			} else if x >= 0 {
				vrt.Assert(got == x>>uint(y), "rsh-value")
			}
		}
		return
	}
	vrt.Cover("error")
	expectErr(r, err, a.IsNil() || b.IsNil(), "shift")
}

func VerifC11Unary() {
	a := vGen("a", 1, 2, true)
	k := vKind(a)
	// !
	r, err := a.Not()
	if x, ok := a.ToBool(); ok {
		got, gok := r.ToBool()
		vrt.Assert(err == nil && gok && got == !x, "not-value")
	} else {
		expectErr(r, err, k == kNil, "not")
	}
	// ~
	r, err = a.Flip()
	if x, ok := a.ToInt(); ok {
		got, gok := r.ToInt()
		vrt.Assert(err == nil && gok && got == ^x, "flip-value")
	} else {
		expectErr(r, err, k == kNil, "flip")
	}
	// #
	r, err = a.Len()
	switch k {
	case kString:
		s, _ := a.ToString()
		got, gok := r.ToInt()
		vrt.Assert(err == nil && gok && got == len(s), "len-string")
	case kArray:
		s, _ := a.ToArray()
		got, gok := r.ToInt()
		vrt.Assert(err == nil && gok && got == len(s), "len-array")
	default:
		expectErr(r, err, k == kNil, "len")
	}
	vrt.Cover("done")
}

func eqResult(op bytecode.OpCode, a, b Type) (val, isErr, isNilErr bool) {
	r, err := a.Eq(op, b)
	if err != nil {
		return false, true, err == ErrNil
	}
	v, ok := r.ToBool()
	vrt.Assert(ok, "eq-result-is-bool")
	return v, false, false
}

// refEq is the documented equality: ints and floats compare by numeric value, functions are
// never equal, arrays element-wise, different kinds differ.
func refEq(a, b Type) bool {
	ka, kb := vKind(a), vKind(b)
	switch {
	case (ka == kInt || ka == kFloat) && (kb == kInt || kb == kFloat):
		if ka == kInt && kb == kInt {
			x, _ := a.ToInt()
			y, _ := b.ToInt()
			return x == y
		}
		return numAsFloat(a) == numAsFloat(b)
	case ka != kb:
		return false
	case ka == kBool:
		x, _ := a.ToBool()
		y, _ := b.ToBool()
		return x == y
	case ka == kString:
		x, _ := a.ToString()
		y, _ := b.ToString()
		return x == y
	case ka == kArray:
		x, _ := a.ToArray()
		y, _ := b.ToArray()
		if len(x) != len(y) {
			return false
		}
		for i := range x {
			if !refEq(x[i], y[i]) {
				return false
			}
		}
		return true
	}
	return false // functions
}

func VerifC11Eq() {
	ml := vrt.Param("maxlen", 2)
	a := vGen("a", 1, ml, true)
	b := vGen("b", 1, ml, true)
	ab, abErr, abNil := eqResult(bytecode.EQ, a, b)
	ba, baErr, _ := eqResult(bytecode.EQ, b, a)
	ne, neErr, _ := eqResult(bytecode.NE, a, b)
	anyNil := a.IsNil() || b.IsNil()
	vrt.Assert(abErr == anyNil && baErr == anyNil && neErr == anyNil, "eq-errors-iff-an-operand-is-nil")
	if anyNil {
		vrt.Cover("nil")
		vrt.Assert(abNil, "nil-operand-is-nil-error")
		return
	}
	vrt.Cover("compared")
	vrt.Assert(ab == ba, "eq-symmetric")
	vrt.Assert(ne == !ab, "ne-is-negation-of-eq")
	vrt.Assert(ab == refEq(a, b), "eq-value")
	if vKind(a) == kFunc && vKind(b) == kFunc {
		vrt.Cover("functions")
		vrt.Assert(!ab, "functions-never-equal")
	}
}

func VerifC11IntFloatEq() {
	n := vrt.Int("n")
	r, err := NewInt(n).Eq(bytecode.EQ, NewFloat(float64(n)))
	v, ok := r.ToBool()
	vrt.Assert(err == nil && ok && v, "int-equals-float-of-same-value")
	r, err = NewFloat(float64(n)).Eq(bytecode.EQ, NewInt(n))
	v, ok = r.ToBool()
	vrt.Assert(err == nil && ok && v, "float-equals-int-of-same-value")
	vrt.Cover("done")
}

// VerifC11Index: for s of length n <= maxlen and all 64-bit i, j (of any kind):
// 0<=i<=j<=n => len(s[i:j]) = j-i and s[0:i]+s[i:n] == s; s[i] ok iff 0<=i<n; else index error.
func VerifC11Index() {
	ml := vrt.Param("maxlen", 3)
	var s Type
	isStr := vrt.Bool("string")
	n := vrt.Choice("n", ml+1)
	if isStr {
		s = NewString(vrt.Bytes("s", n))
	} else {
		a := make([]Type, 0, n)
		for k := 0; k < n; k++ {
			a = append(a, NewInt(vrt.Int("elem")))
		}
		s = NewArray(a)
	}
	iv := vGen("i", 0, 0, true)
	jv := vGen("j", 0, 0, true)
	i, iok := iv.ToInt()
	j, jok := jv.ToInt()

	// one index
	r1, err1 := s.Index(iv)
	switch {
	case iv.IsNil():
		vrt.Assert(err1 == ErrNil && r1.IsNil(), "index-nil-is-nil-error")
	case !iok:
		vrt.Assert(err1 == ErrType && r1.IsNil(), "index-non-int-is-type-error")
	case i < 0 || i >= n:
		vrt.Cover("ix1-out")
		vrt.Assert(err1 == ErrIndex && r1.IsNil(), "index-outside-is-index-error")
	default:
		vrt.Cover("ix1-in")
		vrt.Assert(err1 == nil, "index-inside-succeeds")
		if isStr {
			str, _ := s.ToString()
			got, ok := r1.ToString()
			vrt.Assert(ok, "string-index-is-string")
			if str[i] < 0x80 {
				// for bytes >= 0x80 the pinned code re-encodes the byte as a rune (2 bytes); the
				// property does not say what s[i] is for non-ASCII text, so only ASCII is pinned down
				vrt.Assert(len(got) == 1 && got[0] == str[i], "string-index-value")
			}
		} else {
			arr, _ := s.ToArray()
			vrt.Assert(r1.StrictEq(arr[i]), "array-index-value")
		}
	}

	// two indices
	r2, err2 := s.Index(iv, jv)
	switch {
	case iv.IsNil() || jv.IsNil():
		// whichever is inspected first decides between nil and type error when the other is ill-typed
		vrt.Assert((err2 == ErrNil || err2 == ErrType) && r2.IsNil(), "slice-nil-index-is-error")
		if (iv.IsNil() || iok) && (jv.IsNil() || jok) {
			vrt.Assert(err2 == ErrNil, "slice-nil-index-is-nil-error")
		}
	case !iok || !jok:
		vrt.Assert(err2 == ErrType && r2.IsNil(), "slice-non-int-is-type-error")
	case i < 0 || i > j || j > n:
		vrt.Cover("ix2-out")
		vrt.Assert(err2 == ErrIndex && r2.IsNil(), "slice-outside-is-index-error")
	default:
		vrt.Cover("ix2-in")
		vrt.Assert(err2 == nil, "slice-inside-succeeds")
		l, lerr := r2.Len()
		ln, _ := l.ToInt()
		vrt.Assert(lerr == nil && ln == j-i, "len(s[i:j])=j-i")
		// s[0:i] + s[i:n] == s
		left, e1 := s.Index(NewInt(0), iv)
		right, e2 := s.Index(iv, NewInt(n))
		vrt.Assert(e1 == nil && e2 == nil, "split-succeeds")
		sum, e3 := left.Arith(bytecode.ADD, right)
		vrt.Assert(e3 == nil, "split-concat-succeeds")
		eq, e4 := sum.Eq(bytecode.EQ, s)
		ev, _ := eq.ToBool()
		vrt.Assert(e4 == nil && ev, "s[0:i]+s[i:n]==s")
		vrt.Assert(sum.StrictEq(s), "s[0:i]+s[i:n]==s (strict)")
	}
	// indexing a non-indexable value is a type error
	o := vGen("o", 0, 0, true)
	if k := vKind(o); k != kString && k != kArray {
		r3, err3 := o.Index(NewInt(0))
		vrt.Assert(r3.IsNil() && err3 != nil, "index-of-non-container-is-error")
	}
}

// VerifC15Func (C15-H2): a function value preserves entry point, parameter count and local
// count for everything the compiler can produce: 0 <= node < 2^31 (a code segment cannot be
// larger), 0 <= params <= locals < 2^16.
func VerifC15Func() {
	nd := vrt.Int("node")
	pc := vrt.Int("params")
	lc := vrt.Int("locals")
	vrt.Assume(nd >= 0 && nd < 1<<31)
	vrt.Assume(pc >= 0 && pc <= lc && lc < 1<<16)
	f := NewFunction(nd, nil, pc, lc)
	d, ok := f.ToFunction()
	vrt.Assert(ok, "is-function")
	vrt.Assert(d.Node == nd, "entry-point-preserved")
	vrt.Assert(d.ParamCnt == pc, "param-count-preserved")
	vrt.Assert(d.LocalCnt == lc, "local-count-preserved")
	vrt.Assert(d.Frame == nil, "frame-nil")
	vrt.Cover("done")
}
