//go:build verif

package value

import "github.com/paulsonkoly/calc/internal/vrt"

// VerifPoly returns an arbitrary well-formed scalar value whose KIND is a solver variable
// (nil, int, float or bool) and whose payload is symbolic: code that dispatches on the kind makes
// the engine fork only where the kind actually matters.
func VerifPoly(name string) Type {
	// param polykinds: 3 = nil/int/bool, 4 = also float (float arithmetic makes solver queries slow)
	k := vrt.Range(name+".kind", 0, vrt.Param("polykinds", 4)-1)
	bits := vrt.Uint64(name + ".bits")
	kinds := [...]kind{nilT, intT, boolT, floatT}
	// nil carries no payload, bool payload is 0 or 1 (the only values the constructors build)
	vrt.Assume(vrt.Or(k != 0, bits == 0))
	vrt.Assume(vrt.Or(k != 2, bits <= 1))
	polyLast = Type{typ: kinds[k], morph: bits}
	return polyLast
}

var polyLast Type

// VerifPolyLast returns the value most recently built by VerifPoly.
func VerifPolyLast() Type { return polyLast }

// VerifIsFloat / VerifFloat: the package exports no float accessor.
func VerifIsFloat(v Type) bool  { return v.typ == floatT }
func VerifFloat(v Type) float64 { return v.f() }
