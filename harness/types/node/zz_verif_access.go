//go:build verif

package node

import (
	"github.com/paulsonkoly/calc/internal/vrt"
	"github.com/paulsonkoly/calc/vm"
)

// Accessors for the verification harnesses (the REPL helpers are unexported).

func VerifProcessInput(input string, p Parser, m *vm.Type, doOut bool) {
	processInput(input, p, m, doOut)
}
func VerifReportError(err ParserError, line string) { reportError(err, line) }

// VerifLoop runs the REPL/file loop over the given lines (each WITH its line terminator handling
// done by the reader model: the REPL reader returns lines without newline, the file reader with).
type VerifLines struct {
	Lines []string
	Errs  []error
	pos   int
}

func (l *VerifLines) read() (string, error) {
	if l.pos >= len(l.Lines) {
		return "", l.Errs[len(l.Errs)-1]
	}
	s, e := l.Lines[l.pos], l.Errs[l.pos]
	l.pos++
	return s, e
}
func (l *VerifLines) Close() error { return nil }

func VerifLoop(l *VerifLines, p Parser, m *vm.Type, doOut bool) { Loop(l, p, m, doOut) }

// VerifFileLoop runs the script-file loop exactly as cmd/calc does for `calc file`: the real file
// reader, made by its constructor, over a file holding text.
func VerifFileLoop(text string, p Parser, m *vm.Type, doOut bool) {
	Loop(NewFReader(vrt.TempFile(text)), p, m, doOut)
}
