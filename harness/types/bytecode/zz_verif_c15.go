//go:build verif

package bytecode

import "github.com/paulsonkoly/calc/internal/vrt"

// VerifC15Enc (C15-H1): every instruction New(op)|EncodeSrc(0..)|EncodeSrc(1..)|EncodeSrc(2..)
// decodes to exactly the fields it was built from, or EncodeSrc refused (its range panic).
// Full 64-bit addresses; op over the 7-bit opcode field; operand kinds over the 3-bit field.
func VerifC15Enc() {
	op := vrt.Uint64("op")
	vrt.Assume(op < 128)
	var kind [3]uint64
	var addr [3]int
	for i := 0; i < 3; i++ {
		kind[i] = vrt.Uint64("kind")
		vrt.Assume(kind[i] < 8)
		addr[i] = vrt.Int("addr")
	}
	var instr Type
	refused := vrt.Try(func() {
		instr = New(OpCode(op)) | EncodeSrc(0, kind[0], addr[0]) | EncodeSrc(1, kind[1], addr[1]) | EncodeSrc(2, kind[2], addr[2])
	})
	if refused {
		vrt.Cover("refused")
		// refusal is legitimate only for an address the field cannot hold
		ok := false
		for i := 0; i < 3; i++ {
			if addr[i] < -32768 || addr[i] > 32767 {
				ok = true
			}
		}
		vrt.Assert(ok, "refused-representable-address")
		return
	}
	vrt.Cover("encoded")
	vrt.Assert(uint64(instr.OpCode()) == op, "opcode")
	vrt.Assert(instr.Src0() == kind[0], "kind0")
	vrt.Assert(instr.Src1() == kind[1], "kind1")
	vrt.Assert(instr.Src2() == kind[2], "kind2")
	vrt.Assert(instr.Src0Addr() == addr[0], "addr0")
	vrt.Assert(instr.Src1Addr() == addr[1], "addr1")
	vrt.Assert(instr.Src2Addr() == addr[2], "addr2")
	vrt.Assert(instr.Src(0) == kind[0] && instr.Src(1) == kind[1], "Src(sel)")
}

// VerifC15Patch (C15-H4 unit part): patching a jump by OR-ing EncodeSrc into an instruction whose
// operand field is still zero (the compiler's idiom) yields the patched distance, or refusal.
func VerifC15Patch() {
	opx := vrt.Choice("jmpkind", 4)
	dist := vrt.Int("dist")
	cond := vrt.Uint64("condkind")
	vrt.Assume(cond < 8)
	caddr := vrt.Int("condaddr")
	vrt.Assume(caddr >= -32768 && caddr <= 32767)
	ops := [...]OpCode{JMP, JMPF, JMPT, CCONT}
	var instr Type
	refused := vrt.Try(func() {
		switch opx {
		case 0, 3:
			instr = New(ops[opx])
			instr |= EncodeSrc(0, AddrImm, dist)
		default:
			instr = New(ops[opx]) | EncodeSrc(0, cond, caddr)
			instr |= EncodeSrc(1, AddrImm, dist)
		}
	})
	if refused {
		vrt.Cover("refused")
		vrt.Assert(dist < -32768 || dist > 32767, "refused-representable-distance")
		return
	}
	vrt.Cover("patched")
	vrt.Assert(instr.OpCode() == ops[opx], "opcode")
	switch opx {
	case 0, 3:
		vrt.Assert(instr.Src0Addr() == dist, "jmp-distance")
	default:
		vrt.Assert(instr.Src1Addr() == dist, "jmpf-distance")
		vrt.Assert(instr.Src0() == cond && instr.Src0Addr() == caddr, "cond-operand")
	}
}
