# Per-property check configuration: which harnesses gosym runs, with which bounds.
# Only bounds that ran clean on the unchanged tree are registered here.

CHECKS = {
    "C15": {
        "runs": [
            {"harness": ["types/bytecode.VerifC15Enc", "types/bytecode.VerifC15Patch"], "pkgs": ["./types/bytecode"],
             "covers": {"VerifC15Enc": ["refused", "encoded"], "VerifC15Patch": ["refused", "patched"]}, "cross": 1},
        ],
        "bound_text": "H1: all 2^7 opcodes x 3 operand slots x 8 operand kinds x all 2^64 addresses, no loops",
        "assumptions": ["EncodeSrc's own range panic counts as the compile-time refusal"],
    },
}
