# Per-property check configuration: which harnesses gosym runs, with which bounds.
# Only bounds that ran clean on the unchanged tree are registered here.

C11_HARN = ["VerifC11Arith", "VerifC11Mod", "VerifC11Rel", "VerifC11Logic", "VerifC11Shift", "VerifC11Unary", "VerifC11Eq", "VerifC11IntFloatEq", "VerifC11Index"]

CHECKS = {
    "C01": {
        "runs": [
            {"harness": ["internal/vsess.VerifC01Expr"], "pkgs": ["./internal/vsess"], "fuel": 6000000,
             "params_quick": {"budget": 1, "nops": 4, "leaves": 3, "polykinds": 3, "fam_hi": 0}, "params_thorough": {"budget": 2, "nops": 6, "leaves": 5, "fam_hi": 0},
             "covers": {"VerifC01Expr": ["value", "runtime-error"]}},
            {"harness": ["internal/vsess.VerifC01Expr"], "pkgs": ["./internal/vsess"], "fuel": 6000000,
             "params_quick": {"budget": 1, "chain": 2, "treeops": 3, "nops": 3, "leaves": 2, "polykinds": 3, "fam_lo": 1, "ctx3": 1},
             "params_thorough": {"budget": 1, "chain": 3, "treeops": 4, "nops": 6, "leaves": 4, "fam_lo": 1},
             "covers": {"VerifC01Expr": ["value", "runtime-error"]}},
            {"harness": ["internal/vsess.VerifC01Stmt"], "pkgs": ["./internal/vsess"], "fuel": 6000000,
             "params_quick": {"sdepth": 1, "polykinds": 3}, "params_thorough": {"sdepth": 2},
             "covers": {"VerifC01Stmt": ["value", "runtime-error"]}},
        ],
        "bound_text": "expression families (<= budget operator/wrapper nodes, sandwiches, chains, e-op-e, all operator trees with <= treeops operators, if/else) in 16 embeddings; statement trees of depth <= 1 (quick) / 2 (thorough) with output in 8 body positions; loops <= 2 iterations; operand kinds nil/int/bool (+float in thorough) symbolic, literal values symbolic",
        "assumptions": ["reference evaluator (harness/internal/vsess/ref.go) is the Readme's semantics; left open by the language description and therefore not followed: shift counts outside 0..63, >> of negative ints, s[i] for non-ASCII bytes, lock-step loops over generators with side effects, read/exit"],
    },
    "C02": {
        "runs": [
            {"harness": ["internal/vsess.VerifC02Loops"], "pkgs": ["./internal/vsess"], "fuel": 8000000,
             "params_quick": {"niter": 14, "niter2": 3, "maxdepth": 4}, "params_thorough": {"niter": 14, "niter2": 14, "maxdepth": 7},
             "covers": {"VerifC02Loops": ["done"]}},
        ],
        "bound_text": "14 iterator expressions (traced counters, conditional/recursive/nested-call/closure generators, map/filter/chain compositions to depth 2, built-ins, non-generators) x 9 consumers (write each, collect, nested cross product, lock-step over 5x5 pure iterators, return from body, loop at recursion depth <= 3 (thorough 6), loops in sequence, loop value, naked yield); yields per generator <= 3; yielded values symbolic",
        "assumptions": ["lock-step loops only over generators without output (the reference runs them one after the other)"],
    },
    "C03": {
        "runs": [
            {"harness": ["internal/vsess.VerifC03Pure"], "pkgs": ["./internal/vsess"], "fuel": 8000000,
             "params_quick": {"dive": 140, "maxcalldepth": 3, "sweepdepth": 130}, "params_thorough": {"dive": 300, "maxcalldepth": 130, "sweepdepth": 260},
             "covers": {"VerifC03Pure": ["done"]}},
        ],
        "bound_text": "6 side-effect-free functions (arithmetic, loop, closure created and called, closure observing a later update, array building loop, possibly-unassigned local) x 6 histories (none, recursion 140 (thorough 300) deep, loops recycling contexts at two levels, failed statement, plain calls, abandoned generator) x 6 placements (again, twice in one array, loop body, generator, call depth <= 2 (thorough <= 129), while body); arguments and constants symbolic",
        "assumptions": [],
    },
    "C04": {
        "runs": [
            {"harness": ["internal/vsess.VerifC04Shadow"], "pkgs": ["./internal/vsess"], "fuel": 6000000,
             "params_quick": {"pool": 2, "maxstmts": 2}, "params_thorough": {"pool": 3, "maxstmts": 2},
             "covers": {"VerifC04Shadow": ["done"]}},
            {"harness": ["internal/vsess.VerifC04Closure", "internal/vsess.VerifC04Passing", "internal/vsess.VerifC04Recursion"], "pkgs": ["./internal/vsess"], "fuel": 6000000,
             "params_quick": {"pool": 2}, "params_thorough": {"pool": 3},
             "covers": {"VerifC04Closure": ["done"], "VerifC04Passing": ["done"], "VerifC04Recursion": ["done"]}},
        ],
        "bound_text": "functions with 1 parameter and <= 3 statements (assignment, for, if) over a 3-name pool shared by globals/parameters/locals/loop variables; closures with one parameter capturing the definer's variables, leaving directly / by return / inside an array / by value; function values routed through up to 2 foreign functions; recursion depth <= 3; all literals symbolic",
        "assumptions": ["reference evaluator implements the Readme's scoping rule (own variable, else variable of the immediately enclosing function, else global; a name becomes local from its first assignment in text order)"],
    },
    "C05": {
        "runs": [
            {"harness": ["internal/vsess.VerifC05Expr"], "pkgs": ["./internal/vsess"], "fuel": 3000000,
             "params_quick": {"budget": 1, "nops": 4, "leaves": 3, "fam": 0, "polykinds": 3}, "params_thorough": {"budget": 2, "nops": 5, "leaves": 4, "fam": 0},
             "covers": {"VerifC05Expr": ["value", "runtime-error"]}},
            {"harness": ["internal/vsess.VerifC05Expr"], "pkgs": ["./internal/vsess"], "fuel": 3000000,
             "params_quick": {"budget": 1, "chain": 2, "nops": 4, "leaves": 3, "fam_lo": 1, "ctx3": 1, "polykinds": 3},
             "params_thorough": {"budget": 1, "chain": 3, "nops": 6, "leaves": 4, "fam_lo": 1, "nctx": 16},
             "covers": {"VerifC05Expr": ["value", "runtime-error"]}},
            {"harness": ["internal/vsess.VerifC05Stmt", "internal/vsess.VerifC05Lists", "internal/vsess.VerifC05Wide"], "pkgs": ["./internal/vsess"], "fuel": 6000000,
             "params_quick": {"sdepth": 1, "polykinds": 3}, "params_thorough": {"sdepth": 2},
             "covers": {"VerifC05Stmt": ["value", "runtime-error"], "VerifC05Lists": ["done"], "VerifC05Wide": ["done"]}},
        ],
        "bound_text": "expression families: trees with <= budget operator/wrapper nodes (quick 1, thorough 2) over 13 non-operator positions, operator-in-position-in-operator sandwiches, operator chains (quick 2, thorough 3), e-op-e, if/else; 16 statement embeddings (quick: all 16 for small trees, used/discarded/function-tail for the other families); operators: one representative per VM dispatch group; operand kinds nil/int/float/bool symbolic, strings/arrays of length <= 2",
        "assumptions": ["generated trees are exactly trees the parser can produce (statement forms only in statement positions)"],
    },
    "C06": {
        "runs": [
            {"harness": ["internal/vsess.VerifC06Text"], "pkgs": ["./internal/vsess"], "fuel": 30000000,
             "params_quick": {"n": 3}, "params_thorough": {"n": 4},
             "covers": {"VerifC06Text": ["accepted", "rejected"]}},
            {"harness": ["internal/vsess.VerifC06Tokens"], "pkgs": ["./internal/vsess"], "fuel": 30000000,
             "params_quick": {"maxtokens": 3, "vocab": 20, "session": 0}, "params_thorough": {"maxtokens": 3, "vocab": 32, "session": 0},
             "covers": {"VerifC06Tokens": ["accepted", "rejected"]}},
            {"harness": ["internal/vsess.VerifC06Tokens"], "pkgs": ["./internal/vsess"], "fuel": 30000000,
             "params": {"maxtokens": 2, "vocab": 32, "session": 1},
             "covers": {"VerifC06Tokens": ["accepted", "rejected"]}},
            {"harness": ["internal/vsess.VerifC06Literals", "internal/vsess.VerifC06Nesting"], "pkgs": ["./internal/vsess"], "fuel": 60000000,
             "params_quick": {"maxnest": 24}, "params_thorough": {"maxnest": 40},
             "covers": {"VerifC06Literals": ["accepted", "rejected"], "VerifC06Nesting": ["accepted", "rejected"]}},
        ],
        "bound_text": "all ASCII texts of n bytes (quick 3, thorough 4); all sequences of <= 3 tokens over a 20 (thorough 32) word vocabulary of the grammar, with and without blanks, and of <= 2 tokens fed through processInput into a live session; number literals of 1, 2, 18, 19, 20, 25 digits (symbolic head and tail digits); bracket/call/index nesting up to depth 24 (thorough 40), balanced, one closer short, one too many",
        "assumptions": ["texts longer than the bounds only through the token, literal and nesting families", "nesting deep enough to exhaust the Go stack is outside the claim"],
    },
    "C08": {
        "runs": [
            {"harness": ["internal/vsess.VerifC08Session"], "pkgs": ["./internal/vsess"], "fuel": 8000000,
             "params_quick": {"polykinds": 3}, "params_thorough": {"polykinds": 4},
             "covers": {"VerifC08Session": ["failed", "did-not-fail"]}},
        ],
        "bound_text": "4 risky operations (division, indexing, assignment of an absent value to a bound global, call with wrong arity) whose failure class is decided by a symbolic operand x 8 dynamic depths (top level, nested call, while body, for body, inside a generator after a yield, generator in a loop at call depth, composed generator, lock-step loop body) x REPL/script mode x one or two failures in a row x 4 probes",
        "assumptions": ["parse errors are not part of this harness (a rejected text never reaches the compiler: see C06)"],
    },
    "C09": {
        "runs": [
            {"harness": ["internal/vsess.VerifC09Stmt"], "pkgs": ["./internal/vsess"], "fuel": 3000000,
             "params_quick": {"sdepth": 1, "polykinds": 3}, "params_thorough": {"sdepth": 2},
             "covers": {"VerifC09Stmt": ["value", "runtime-error"]}},
            {"harness": ["internal/vsess.VerifC09Expr"], "pkgs": ["./internal/vsess"], "fuel": 3000000,
             "params_quick": {"budget": 1, "nops": 3, "leaves": 2, "polykinds": 3}, "params_thorough": {"budget": 2, "nops": 5, "leaves": 4},
             "covers": {"VerifC09Expr": ["value", "runtime-error"]}},
            {"harness": ["internal/vsess.VerifC09Loop"], "pkgs": ["./internal/vsess"], "fuel": 20000000, "maxdec": 40000,
             "params_quick": {"sdepth": 1, "budget": 1, "nops": 3, "leaves": 3, "polykinds": 3, "iterations": 140}, "params_thorough": {"sdepth": 1, "budget": 1, "iterations": 300},
             "covers": {"VerifC09Loop": ["compared"]}},
        ],
        "bound_text": "statement trees of depth <= 1 (quick) / 2 (thorough) in 8 body positions; expression families in 16 embeddings; loops of 1 vs 140 (thorough 300) iterations in 5 loop shapes",
        "assumptions": [],
    },
    "C10": {
        "runs": [
            {"harness": ["internal/vsess.VerifC10Ops"], "pkgs": ["./internal/vsess"], "fuel": 8000000,
             "params_quick": {"vars": 2, "ops": 2}, "params_thorough": {"vars": 2, "ops": 3},
             "covers": {"VerifC10Ops": ["done"]}},
        ],
        "bound_text": "sequences of 2 (quick) / 3 (thorough) operations from {extend by literal, slice with symbolic bounds, concatenate two variables, literal with constant prefix 3 or 5 evaluated again, computed literal, extend an array captured by a closure, nest, rebuild through a generator loop} over 2 variables initialised with a concatenation result, a computed literal and a string; every variable printed after every operation",
        "assumptions": ["the engine's append follows runtime.growslice of the Go toolchain in use (size-class table ported; validated by native replay of sampled paths)"],
    },
    "C11": {
        "runs": [
            {"harness": ["types/value." + h for h in C11_HARN], "pkgs": ["./types/value"], "cross": 7, "params_quick": {"maxlen": 1}, "params_thorough": {"maxlen": 2},
             "covers": {"VerifC11Arith": ["int-int", "float-promotion", "string-concat", "array-concat", "error"],
                        "VerifC11Mod": ["mod-zero", "mod", "error"], "VerifC11Rel": ["numeric", "error"],
                        "VerifC11Logic": ["int", "bool", "error"], "VerifC11Shift": ["int", "error"], "VerifC11Unary": ["done"],
                        "VerifC11Eq": ["nil", "compared", "functions"], "VerifC11IntFloatEq": ["done"],
                        "VerifC11Index": ["ix1-in", "ix1-out", "ix2-in", "ix2-out"]}},
        ],
        "bound_text": "all 7x7 kind pairings, full 64-bit ints/float bit patterns (NaN, inf, -0 included); strings/arrays of length <= 2 (index laws: <= 3), array nesting 1",
        "assumptions": ["operands are well-formed values as built by the package's constructors", "shift semantics only pinned down for counts 0..63 (and non-negative left operand for >>); other counts: must yield an int without fault"],
    },
    "C12": {
        "runs": [
            {"harness": ["internal/vsess.VerifC12Positions"], "pkgs": ["./internal/vsess"], "fuel": 4000000,
             "params_quick": {"budget": 1, "nops": 3, "leaves": 3, "polykinds": 3, "sandwich": 0}, "params_thorough": {"budget": 1, "nops": 5, "leaves": 4},
             "covers": {"VerifC12Positions": ["value", "runtime-error"]}},
            {"harness": ["internal/vsess.VerifC12Trees"], "pkgs": ["./internal/vsess"], "fuel": 4000000,
             "params_quick": {"treeops": 3, "nops": 2}, "params_thorough": {"treeops": 4, "nops": 3},
             "covers": {"VerifC12Trees": ["value"]}},
            {"harness": ["internal/vsess.VerifC12Increment", "internal/vsess.VerifC12Conditions"], "pkgs": ["./internal/vsess"], "fuel": 4000000,
             "covers": {"VerifC12Increment": ["value", "runtime-error"], "VerifC12Conditions": ["value", "runtime-error"]}},
        ],
        "bound_text": "expression e from the families (<= budget operator/wrapper nodes, sandwiches) in 11 paired spellings (used/discarded, function tail, operand depth 0..2 left and right, call argument, array element, index position, e op e, loop body); three increment spellings at global and local scope for x of any scalar kind; if/while conditions of any scalar kind in 5 positions",
        "assumptions": ["e op e vs t op t only for e without calls (two evaluations of a side effect are a different program)"],
    },
    "C13": {
        "runs": [
            {"harness": ["lexer.VerifC13History", "lexer.VerifC13Step"], "pkgs": ["./lexer"],
             "params_quick": {"ops": 4, "stepops": 2}, "params_thorough": {"ops": 6, "stepops": 3},
             "covers": {"VerifC13History": ["ops-done"], "VerifC13Step": ["ops-done"]}},
            {"harness": ["lexer.VerifC13Comb"], "pkgs": ["./lexer"], "params": {"textlen": 5, "starts": 2},
             "covers": {"VerifC13Comb": ["accepted", "rejected"]}},
            {"harness": ["lexer.VerifC13Comb"], "pkgs": ["./lexer"], "thorough_only": True,
             "params": {"texts": 2, "starts": 3, "failuse": 3, "shape_lo": 0, "shape_hi": 21}},
            {"harness": ["lexer.VerifC13Comb"], "pkgs": ["./lexer"], "thorough_only": True,
             "params": {"texts": 2, "starts": 3, "failuse": 3, "shape_lo": 22, "shape_hi": 26}},
            {"harness": ["lexer.VerifC13Comb"], "pkgs": ["./lexer"], "thorough_only": True,
             "params": {"texts": 2, "starts": 3, "failuse": 3, "shape_lo": 27, "shape_hi": 28}},
        ],
        "bound_text": "5 token streams (0..7 tokens, one with a lexer error); histories of <=4 (quick) / <=6 (thorough) operations from a new lexer; 2..3 operations from any state satisfying the representation invariant (cursor and <=3 saved cursors symbolic); 28 combinator shapes (depth <= 3) over 3 stub sub-parsers that succeed/fail and consume 0..2 tokens as an arbitrary function of (stub, position)",
        "assumptions": ["Commit/Rollback are only called after a matching Snapshot (the combinators' usage)", "Not is exercised only under Assert, as in the grammar", "stub sub-parsers consume at least one token when they succeed"],
    },
    "C17": {
        "runs": [
            {"harness": ["internal/vsess.VerifC17Toa", "internal/vsess.VerifC17Aton", "internal/vsess.VerifC17Iter", "internal/vsess.VerifC17Read"], "pkgs": ["./internal/vsess"], "fuel": 8000000,
             "params_quick": {"polykinds": 4}, "covers": {"VerifC17Toa": ["done"], "VerifC17Aton": ["done"], "VerifC17Iter": ["done"], "VerifC17Read": ["done"]}},
        ],
        "bound_text": "toa/write: scalars of symbolic kind and payload (ints, float bit patterns, bools, nil), strings of <=2 symbolic bytes, arrays nested <=2, functions; aton(toa(n)): all 64-bit n with the decimal rendering modelled as an opaque injective function, plus 14 boundary ints and 15 floats concretely through the real strconv; fromto: symbolic a with b-a in -2..4; elems/indices: containers as for toa; read: <=3 lines of <=2 symbolic bytes, arbitrary chunking of the input stream",
        "assumptions": ["strconv.Itoa/Atoi are inverse on ints (trusted standard library); aton(toa(x))==x for floats is only sampled concretely (shortest-float formatting and parsing are not encoded: outside the claim)", "stdin is modelled as a stream delivered in solver-chosen chunks; a bufio.Reader owns what it has buffered"],
    },
    "C18": {
        "runs": [
            {"harness": ["memory.VerifC18History"], "pkgs": ["./memory"], "fuel": 3000000,
             "params_quick": {"ops": 3, "sizes": 3}, "params_thorough": {"ops": 4, "sizes": 5},
             "covers": {"VerifC18History": ["done"]}},
            {"harness": ["memory.VerifC18Frames", "memory.VerifC18Recycle"], "pkgs": ["./memory"], "fuel": 5000000,
             "params_quick": {"sizes": 3, "depth": 2}, "params_thorough": {"sizes": 9, "depth": 2},
             "covers": {"VerifC18Frames": ["done"], "VerifC18Recycle": ["done"]}},
        ],
        "bound_text": "operation histories of <=3 (quick) / <=4 (thorough) operations from New(); call nesting <=2/3; frame widths, operand counts and fork sizes drawn from {0,1,2,3,125..130,200,255..257,300} (quick: {1,128,200}); <=4 contexts; stored values symbolic 64-bit",
        "assumptions": ["operations respect the VM's calling contract (arguments pushed before PushFrame, Pop only of pushed operands, slot indices inside the frame)"],
    },
    "C14": {
        "runs": [
            {"harness": ["lexer.VerifC14Lex", "lexer.VerifC14Layout"], "pkgs": ["./lexer"], "fuel": 200000,
             "params_quick": {"n": 3, "ascii": 1}, "params_thorough": {"n": 4, "ascii": 1},
             "covers": {"VerifC14Lex": ["accepted", "rejected"], "VerifC14Layout": ["compared"]}},
        ],
        "bound_text": "all ASCII inputs of exactly n bytes (quick n<=3, thorough n<=4), every byte symbolic",
        "assumptions": ["string literal text is compared after the lexer's own \\n escape replacement"],
    },
    "C15": {
        "runs": [
            {"harness": ["types/bytecode.VerifC15Enc", "types/bytecode.VerifC15Patch"], "pkgs": ["./types/bytecode"],
             "covers": {"VerifC15Enc": ["refused", "encoded"], "VerifC15Patch": ["refused", "patched"]}, "cross": 1},
            {"harness": ["types/value.VerifC15Func"], "pkgs": ["./types/value"], "covers": {"VerifC15Func": ["done"]}, "cross": 1},
        ],
        "bound_text": "H1: all 2^7 opcodes x 3 operand slots x 8 operand kinds x all 2^64 addresses, no loops",
        "assumptions": ["EncodeSrc's own range panic counts as the compile-time refusal"],
    },
}

LEVEL_TEXT = {
    "C06": "Lexer, transactional lexer, all combinators, the grammar, the token wrapper, reportError and processInput are executed symbolically. For short texts every byte is a solver variable; longer inputs are reached through token sequences, literals with symbolic digits and nesting families. Any feasible Go panic, fuel exhaustion (non-termination, confirmed by native timeout), error span outside the input or compilation of a rejected text is a violation.",
    "C17": "The built-ins are reached through the real pipeline with arguments of symbolic kind and payload; toa against captured write output, aton/toa round trip, fromto/elems/indices against explicit expectations and the reference evaluator, and successive read() calls against a stdin model whose chunk sizes are solver variables. Float round trip is outside the encoding and only sampled.",
    "C10": "Operation sequences over variables that share structure are executed symbolically (indices and element values symbolic) next to the reference evaluator, which never shares storage; after each operation every variable is rendered on both sides. The engine models Go slices with their real capacity growth, so whether an append writes into an operand's spare capacity is decided as in the native build.",
    "C08": "Sessions are executed symbolically statement by statement next to the reference evaluator; whether and how the injected statement fails is decided by a solver variable (operand kind and value), so failing and non-failing runs of every placement are both explored; after the failure the machine state is read through accessors and every later statement must equal the reference in value, output and error.",
    "C02": "Differential symbolic execution against the reference evaluator (generators as internal iteration): generator definitions, compositions and consumers are enumerated by forking, yielded values are symbolic, generators write trace marks so that the compared output fixes the interleaving of generator and loop body; loop values, collected values and the session state afterwards are compared for all values.",
    "C03": "Each pure function is called first in a fresh session, then after a solver-chosen history and in a solver-chosen dynamic placement; every call is compared with the reference evaluator's result for symbolic arguments, so a result that depends on what ran before (stack growth, recycled contexts, stale frames) is a failed solver-decided assertion.",
    "C04": "Differential symbolic execution against the reference evaluator on generated programs whose variable names are drawn from a small pool so that globals, parameters, locals, loop variables and captured variables collide in every combination; after every call each global is read back on both sides and every returned closure is called after other calls have reused the stack. Literal values are symbolic, so agreement is a solver verdict over all values.",
    "C01": "Differential symbolic execution: the real pipeline and a reference evaluator written from the language description are both interpreted from SSA on the same generated tree with the same symbolic literals and preset globals; equality of error class, result value and written output is a solver-decided assertion for all values on every explored shape (promotion, overflow, zero divisors, index bounds, nil/type errors are models the solver must exclude).",
    "C12": "Implementation against implementation: two spellings of the same computation are compiled and run symbolically in two sessions sharing the same symbolic global values; equality of error class and of the result value for all operand kinds/values is a solver-decided assertion per explored shape. Conditions of if/while of symbolic kind must be errors exactly when the kind is not bool.",
    "C09": "The compiler and VM are executed symbolically on generated statements in used/discarded/returning positions; after every run (normal, return, runtime error) the operand stack pointer, frame stack, closure stack, live iterator contexts and the main instruction pointer are read through accessors and must be back at their idle values, and a loop run 1 vs N>128 times must leave the operand stack array equally long. Operand kinds and literal values are solver variables, so which branch of a conditional runs in an iteration is decided by the solver.",
    "C05": "The whole pipeline (symbol rewriting, bytecode compiler with its context flags and temp-register strategy, VM, value algebra, memory) is executed symbolically from SSA on generated syntax trees. Tree shapes and embeddings are enumerated by forking; operand kinds (nil/int/float/bool) and all literal payloads are solver variables, so e.g. a zero divisor, an index equal to the length or a NaN is a model the solver must exclude. Any feasible Go panic path, non-terminating run or undocumented error class is a violation, replayed natively.",
    "C18": "Every method of memory.Type is executed symbolically from SSA along solver-chosen operation sequences and call/fork scenarios whose sizes cross the 128-cell allocation boundaries, beside a capacity-free reference model; after every operation every variable of every live context is read back and must equal the last value written (values are symbolic, so equality is a solver verdict, and every Go panic path such as an index out of range must be infeasible). Sizes are enumerated from a boundary set, not symbolic: the engine has no symbolic-length slices.",
    "C13": "TLexer and every combinator are executed symbolically from SSA. For the lexer the cursor and saved cursors of the pre-state are solver variables constrained only by the representation invariant, so one-step results cover histories of any length; combinators run over the real TLexer with sub-parser outcomes as solver-chosen functions of position and are compared with an ordered-choice reference recogniser (accept/reject, results, final position, snapshot depth).",
    "C11": "Every method of the value algebra is executed symbolically from its SSA with operand kinds forked and all 64-bit payloads (ints, float bit patterns incl. NaN/inf/-0, string bytes) left symbolic; each documented law is an assertion the solver must prove unsat-negated on every path, and every Go panic path must be infeasible. Bounded only in container length/nesting.",
    "C14": "Lexer.Next and all state functions are executed symbolically over every input of the stated length with all bytes symbolic; span/text/gap/grouping/line-break/end-marker laws and invariance under inserted blanks/comments are solver-decided assertions; non-termination shows up as fuel exhaustion and is confirmed by native timeout.",
    "C15": "The encode/decode functions are loop-free bit manipulation: the solver decides round-trip equality for all 2^64 addresses, all opcodes and operand kinds at full width (no unrolling), so within the stated argument ranges this is a complete decision, cross-checked by cvc5 on every assertion query.",
}

NOT_APPLICABLE = {}
