#!/bin/sh
# Re-run every claimed quick check on the current tree so that the committed evidence is current.
cd /verif
for p in $(python3 -c "import sys; sys.path.insert(0,'/verif'); from checks_config import CHECKS; print(' '.join(sorted(CHECKS)))"); do
  timeout 1800 ./check $p --tier quick 2>/dev/null | grep -a "^OK\|^VIOLATION\|^INCONCLUSIVE\|^KNOWN" | cut -c1-200
done
