#!/usr/bin/env python3
"""Seeded-change bookkeeping.

  seed.py verify <src_dir> <id> <demo_pkg_dir> <test_regex>
      confirm in a scratch worktree of /repo's HEAD that the change compiles, passes the existing
      suite, and that the demonstration fails with it and passes without it; then keep it as
      /verif/seeded/<id>/ (patch.diff, demo, meta.json)
  seed.py run <id> [--scratch] [--tier quick] [--props C01,C02]
      apply /verif/seeded/<id>/patch.diff to /repo (or, with --scratch, to a scratch worktree of
      /repo's head that is removed afterwards), run the property's check(s), undo, report
"""
import json, os, shutil, subprocess, sys, tempfile, time

ENV = dict(os.environ, GOFLAGS="-mod=mod", GOPROXY="off", GOSUMDB="off", GOTOOLCHAIN="local")
SEEDED = "/verif/seeded"


def sh(cmd, cwd=None, timeout=600):
    p = subprocess.run(cmd, shell=True, cwd=cwd, env=ENV, stdout=subprocess.PIPE, stderr=subprocess.STDOUT, text=True, timeout=timeout)
    return p.returncode, p.stdout


def verify(src, sid, pkgdir, rx):
    wt = tempfile.mkdtemp(prefix="seedwt-", dir="/tmp")
    os.rmdir(wt)
    rc, out = sh("git -C /repo worktree add -q --detach %s HEAD" % wt)
    assert rc == 0, out
    log = {}
    try:
        demo_files = [f for f in os.listdir(src) if f.endswith("_test.go") or (f.endswith(".go") and f != "patch.diff")]
        def place():
            for f in demo_files:
                shutil.copy(os.path.join(src, f), os.path.join(wt, pkgdir, "zz_seed_" + f if not f.endswith("_test.go") else "zz_seed_" + f))
        def unplace():
            for f in demo_files:
                os.remove(os.path.join(wt, pkgdir, "zz_seed_" + f))
        # without the change: demo passes
        place()
        rc0, out0 = sh("go test -count=1 -run '%s' ./%s" % (rx, pkgdir), cwd=wt)
        unplace()
        log["demo_without_change"] = "pass" if rc0 == 0 else "FAIL"
        rc, out = sh("git apply %s" % os.path.join(src, "patch.diff"), cwd=wt)
        log["apply"] = "ok" if rc == 0 else "FAIL " + out[-300:]
        if rc == 0:
            rcb, outb = sh("go build ./... && go test -count=1 ./...", cwd=wt)
            log["build_and_suite_with_change"] = "pass" if rcb == 0 else "FAIL " + outb[-400:]
            place()
            rc1, out1 = sh("go test -count=1 -run '%s' ./%s" % (rx, pkgdir), cwd=wt)
            unplace()
            log["demo_with_change"] = "fail (as required)" if rc1 != 0 else "PASSES (change not demonstrated)"
            log["demo_output_tail"] = out1[-600:]
        ok = log.get("demo_without_change") == "pass" and log.get("apply") == "ok" and log.get("build_and_suite_with_change") == "pass" and log.get("demo_with_change", "").startswith("fail")
    finally:
        sh("git -C /repo worktree remove --force %s" % wt)
    print(json.dumps(log, indent=1))
    if not ok:
        print("NOT KEPT")
        return 1
    dst = os.path.join(SEEDED, sid)
    os.makedirs(dst, exist_ok=True)
    shutil.copy(os.path.join(src, "patch.diff"), dst)
    for f in demo_files:
        shutil.copy(os.path.join(src, f), dst)
    meta = {}
    mp = os.path.join(src, "meta.json")
    if os.path.exists(mp):
        try:
            meta = json.load(open(mp))
        except Exception:
            meta = {"raw": open(mp).read()}
    meta["demo_pkg_dir"] = pkgdir
    meta["demo_run"] = "go test -count=1 -run '%s' ./%s" % (rx, pkgdir)
    meta["confirmed_by_framework_author"] = dict(log, base_commit=sh("git -C /repo rev-parse --short HEAD")[1].strip(), at=time.strftime("%Y-%m-%d %H:%M"))
    json.dump(meta, open(os.path.join(dst, "meta.json"), "w"), indent=1)
    print("KEPT", dst)
    return 0


def run_scratch(sid, tier, props):
    """Like run, but on a scratch worktree of /repo's head (never touches /repo, writes no evidence)."""
    d = os.path.join(SEEDED, sid)
    meta = json.load(open(os.path.join(d, "meta.json")))
    props = props or [meta.get("property", sid.split("-")[0])]
    wt = tempfile.mkdtemp(prefix="seedrun-", dir="/tmp")
    os.rmdir(wt)
    rc, out = sh("git -C /repo worktree add -q --detach %s HEAD" % wt)
    assert rc == 0, out
    res = {}
    try:
        rc, out = sh("git apply %s" % os.path.join(d, "patch.diff"), cwd=wt)
        if rc != 0:
            print("APPLY FAILED", out)
            return 2
        for p in props:
            t0 = time.time()
            rc, out = sh("VERIF_REPO=%s VERIF_NOEVIDENCE=1 VERIF_REPLAY_DIR=%s/_replay /verif/check %s --tier %s" % (wt, wt, p, tier), cwd="/verif", timeout=7200)
            lines = [l for l in out.splitlines() if l.startswith(("VIOLATION", "KNOWN-FINDING", "INCONCLUSIVE", "OK "))]
            res[p] = {"rc": rc, "wall_s": round(time.time() - t0, 1), "lines": lines[:6]}
            print(p, "rc=%d" % rc, "%.0fs" % (time.time() - t0))
            for l in lines[:6]:
                print("   ", l[:220])
    finally:
        sh("git -C /repo worktree remove --force %s" % wt)
    meta.setdefault("detection", {})
    for p, r in res.items():
        meta["detection"][p + ":" + tier] = {"caught": r["rc"] == 1, "rc": r["rc"], "wall_s": r["wall_s"], "lines": r["lines"][:3], "head": sh("git -C /repo rev-parse --short HEAD")[1].strip()}
    json.dump(meta, open(os.path.join(d, "meta.json"), "w"), indent=1)
    return 0


def run(sid, tier, props):
    d = os.path.join(SEEDED, sid)
    meta = json.load(open(os.path.join(d, "meta.json")))
    props = props or [meta.get("property", sid.split("-")[0])]
    rc, out = sh("git -C /repo status --porcelain")
    assert out.strip() == "", "repo not clean: " + out
    rc, out = sh("git -C /repo apply %s" % os.path.join(d, "patch.diff"))
    if rc != 0:
        print("APPLY FAILED", out)
        return 2
    res = {}
    try:
        for p in props:
            t0 = time.time()
            rc, out = sh("/verif/check %s --tier %s" % (p, tier), cwd="/verif", timeout=7200)
            lines = [l for l in out.splitlines() if l.startswith(("VIOLATION", "KNOWN-FINDING", "INCONCLUSIVE", "OK "))]
            res[p] = {"rc": rc, "wall_s": round(time.time() - t0, 1), "lines": lines[:6]}
            print(p, "rc=%d" % rc, "%.0fs" % (time.time() - t0))
            for l in lines[:6]:
                print("   ", l[:220])
    finally:
        sh("git -C /repo checkout -- .")
        # evidence files were rewritten by the run on the mutated tree: restore them from git
        sh("git -C /verif checkout -- evidence 2>/dev/null; rm -rf /verif/replay")
    meta.setdefault("detection", {})
    for p, r in res.items():
        meta["detection"][p + ":" + tier] = {"caught": r["rc"] == 1, "rc": r["rc"], "wall_s": r["wall_s"], "lines": r["lines"][:3]}
    json.dump(meta, open(os.path.join(d, "meta.json"), "w"), indent=1)
    return 0


if __name__ == "__main__":
    if sys.argv[1] == "verify":
        sys.exit(verify(*sys.argv[2:6]))
    if sys.argv[1] == "run":
        tier, props, scratch = "quick", None, False
        args = sys.argv[3:]
        while args:
            if args[0] == "--scratch":
                scratch = True
                args = args[1:]
                continue
            if args[0] == "--tier":
                tier = args[1]
            elif args[0] == "--props":
                props = args[1].split(",")
            args = args[2:]
        sys.exit((run_scratch if scratch else run)(sys.argv[2], tier, props))
