#!/usr/bin/env python3
"""Regenerate /verif/MANIFEST.json from checks_config.py (claimed checks) and NOT_APPLICABLE."""
import json, sys
sys.path.insert(0, "/verif")
from checks_config import CHECKS, NOT_APPLICABLE, LEVEL_TEXT

props = [json.loads(l)["id"] for l in open("/verif/properties.jsonl")]
TECH = "bounded symbolic execution of the real Go code (go/ssa -> SMT-LIB2, z3 5.1 decides every branch and assertion; cvc5 cross-check; counterexamples replayed natively)"
checks = []
for p in props:
    if p not in CHECKS:
        continue
    c = CHECKS[p]
    checks.append({
        "property_id": p,
        "quick_cmd": "/verif/check %s --tier quick" % p,
        "thorough_cmd": "/verif/check %s --tier thorough" % p,
        "evidence_file": "/verif/evidence/%s.json" % p,
        "replay_cmd_template": "/verif/check %s --replay {path}" % p,
        "engine": "gosym",
        "level_claimed": {"category": "model_checking", "text": LEVEL_TEXT[p], "design_ref": "DESIGN.md section 4 (%s)" % p},
        "level_note": "Bounded: " + c.get("bound_text", "") + ". Trusted base: go/ssa lowering, the gosym interpreter (validated by native replay of sampled passing paths and of every counterexample), z3 5.1 (sampled queries re-decided by cvc5). Assumes: " + "; ".join(c.get("assumptions", []) or ["none beyond the stated bounds"]),
        "technique": TECH,
    })
na = [{"property_id": p, "reason": NOT_APPLICABLE.get(p, "check not built yet (engine stage not reached); see DESIGN.md section 9")} for p in props if p not in CHECKS]
m = {
    "version": 1,
    "setup_cmd": "/verif/setup.sh",
    "hooks": {"guard": "verif", "enable": "harness sources under /verif/harness carry //go:build verif and are injected as overlay files (go/packages Overlay for gosym, go test -overlay -tags verif for native replay); nothing is written into /repo", "baseline_off_cmd": "cd /repo && GOFLAGS=-mod=mod GOPROXY=off go test -json -vet=off -count=1 -timeout 25m ./...", "source_commits": [], "add_only": True},
    "engines": [{"name": "gosym", "path": "/verif/engine", "serves_properties": [c["property_id"] for c in checks], "kind_free_text": "bounded symbolic executor for go/ssa (x/tools v0.29.0) emitting SMT-LIB2 to z3 5.1.0 (z3-new -in), cvc5 cross-check; counterexamples replayed natively with go test -overlay"}],
    "checks": checks,
    "notes": "See DESIGN.md. Exit 2 from a check means 'could not decide' (build error of the mutated tree with the harness overlay, unsupported operation, solver unknown); it never happens on the unchanged tree at the registered bounds.",
    "not_applicable": na,
}
json.dump(m, open("/verif/MANIFEST.json", "w"), indent=1)
print("checks:", [c["property_id"] for c in checks], "n/a:", len(na))
