// Path exploration: decision vectors, feasibility queries, cone-of-influence slicing, workers.
package main

import (
	"crypto/sha1"
	"fmt"
	"go/types"
	"math"
	"os"
	"runtime/debug"
	"sort"
	"strings"
	"sync"
	"time"

	"golang.org/x/tools/go/ssa"
)

type methKey struct {
	t  types.Type
	id string
}

type nondetRec struct {
	Name string
	W    int
	t    *Term
}

// Violation is one counterexample found on a path.
type Violation struct {
	Harness string            `json:"harness"`
	Kind    string            `json:"kind"` // assert | panic | fuel | depth
	Label   string            `json:"label"`
	Msg     string            `json:"msg"`
	Values  []ReplayVal       `json:"values"`
	Notes   []string          `json:"notes,omitempty"`
	Dec     string            `json:"decisions"`
	Extra   map[string]string `json:"extra,omitempty"`
}

type ReplayVal struct {
	Name string `json:"name"`
	W    int    `json:"w"`
	V    uint64 `json:"v"`
}

type Engine struct {
	files     map[string][]Sc // files created by vrt.TempFile (per path)
	curPanic  *goPanic        // the panic whose deferred calls are running (nil: none, or recovered)
	prog      *ssa.Program
	tt        *TermTab
	solver    *Solver
	cfuncs    map[*ssa.Function]*cFunc
	fnvals    map[*ssa.Function]*Fn
	methCache map[methKey]*ssa.Function
	implCache map[[2]types.Type]bool
	opts      *Options
	id        int

	// shared immutable globals of table-like std packages (initialised once per worker)
	staticGlobals map[*ssa.Global]*Val
	staticInited  map[*ssa.Package]bool

	// per path
	pc            []*Term
	byVar         map[int32][]int
	defs          map[int32]*Term
	defCache      map[*Term]Sc
	atomLen       map[*Term]Sc
	dec           []uint64
	prefix        []uint64
	alts          [][]uint64
	freshN        int
	fuel          int
	depth         int
	maxDepth      int
	globals       map[*ssa.Global]*Val
	inited        map[*ssa.Package]bool
	nondet        []nondetRec
	notes         []noteRec
	pathCovers    []string
	out           []outEvent
	lastModel     Model
	unknownBr     int
	inTry         int
	overrides     map[string]*Fn
	stdin         *stdinModel
	lastPanicMsg  string
	dbgStack      []string
	qcache        map[string]cacheEnt
	cacheHits     int
	noteModel     Model
	reportedPanic bool

	maxConcretize int
	notesMapRange int
	instrs        int64
	funcsSeen     map[*ssa.Function]bool
	res           *Result
}

type noteRec struct {
	label string
	v     Val
}

type outEvent struct {
	kind   string
	format string
	text   Val
}

type Options struct {
	Fuel      int
	MaxDepth  int
	MaxDec    int
	Workers   int
	Solver    string
	MaxPaths  int
	MaxViol   int
	StopViol  int // stop exploring a harness once this many violating paths were seen (0 = never)
	Verbose   bool
	Deadline  time.Time
	CrossFrac int
	Params    map[string]int
}

// Result aggregates a harness run.
type Result struct {
	mu           sync.Mutex
	Harness      string
	Paths        int
	Completed    int
	Assumed      int
	Infeasible   int
	Violations   []Violation
	ViolCount    map[string]int
	Inconclusive map[string]int
	Covers       map[string]int
	Asserts      int
	AssertsSym   int
	Queries      int
	Sat          int
	Unsat        int
	Unknown      int
	SolverErrors int
	SolverDur    time.Duration
	Instrs       int64
	Wall         time.Duration
	Funcs        map[string]bool
	Samples      []map[string]interface{}
	MapRanges    int
	UnknownBr    int
	Truncated    bool
	CrossChecked int
	CrossDiff    int
	CacheHits    int
	crossQ       []crossQuery
}

type crossQuery struct {
	text   string
	expect string
}

func newEngine(prog *ssa.Program, opts *Options, id int) *Engine {
	e := &Engine{prog: prog, tt: newTermTab(), opts: opts, id: id}
	e.solver = newSolver(opts.Solver)
	e.cfuncs = map[*ssa.Function]*cFunc{}
	e.fnvals = map[*ssa.Function]*Fn{}
	e.methCache = map[methKey]*ssa.Function{}
	e.implCache = map[[2]types.Type]bool{}
	e.staticGlobals = map[*ssa.Global]*Val{}
	e.staticInited = map[*ssa.Package]bool{}
	e.funcsSeen = map[*ssa.Function]bool{}
	e.maxConcretize = 300
	e.qcache = map[string]cacheEnt{}
	return e
}

func (e *Engine) resetPath(prefix []uint64) {
	e.pc = e.pc[:0]
	e.byVar = map[int32][]int{}
	e.defs = map[int32]*Term{}
	e.defCache = map[*Term]Sc{}
	e.atomLen = map[*Term]Sc{}
	e.dec = e.dec[:0]
	e.prefix = prefix
	e.alts = nil
	e.freshN = 0
	e.fuel = e.opts.Fuel
	e.depth = 0
	e.curPanic = nil
	e.files = nil
	e.maxDepth = e.opts.MaxDepth
	e.globals = map[*ssa.Global]*Val{}
	e.inited = map[*ssa.Package]bool{}
	e.nondet = nil
	e.notes = nil
	e.pathCovers = nil
	e.out = nil
	e.unknownBr = 0
	e.inTry = 0
	e.overrides = nil
	e.stdin = nil
}

func (e *Engine) addPC(t *Term) {
	if t.isConst() {
		return
	}
	idx := len(e.pc)
	e.pc = append(e.pc, t)
	for _, v := range t.Vars() {
		e.byVar[v] = append(e.byVar[v], idx)
	}
}

// cone returns the path constraints (and needed definitions) in the cone of influence of q.
func (e *Engine) cone(qs ...*Term) []*Term {
	seenVar := map[int32]bool{}
	seenPC := map[int]bool{}
	var todo []int32
	push := func(t *Term) {
		for _, v := range t.Vars() {
			if !seenVar[v] {
				seenVar[v] = true
				todo = append(todo, v)
			}
		}
	}
	for _, q := range qs {
		push(q)
	}
	var out []*Term
	var idxs []int
	for len(todo) > 0 {
		v := todo[len(todo)-1]
		todo = todo[:len(todo)-1]
		if d, ok := e.defs[v]; ok {
			out = append(out, d)
			push(d)
		}
		for _, i := range e.byVar[v] {
			if !seenPC[i] {
				seenPC[i] = true
				idxs = append(idxs, i)
				push(e.pc[i])
			}
		}
	}
	sort.Ints(idxs)
	for _, i := range idxs {
		out = append(out, e.pc[i])
	}
	return out
}

// modelOK reports whether the last model satisfies all of cs, and if so the value of q.
func (e *Engine) evalUnderModel(cs []*Term, q *Term) (val bool, ok bool) {
	if e.lastModel == nil {
		return false, false
	}
	memo := map[*Term]uint64{}
	for _, c := range cs {
		v, ok := c.Eval(e.lastModel, memo)
		if !ok || v == 0 {
			return false, false
		}
	}
	v, ok := q.Eval(e.lastModel, memo)
	if !ok {
		return false, false
	}
	return v != 0, true
}

func (e *Engine) mergeModel(m Model) {
	if m == nil {
		return
	}
	if e.lastModel == nil {
		e.lastModel = Model{}
	}
	for k, v := range m {
		e.lastModel[k] = v
	}
}

type cacheEnt struct {
	res string
	m   Model
}

func queryKey(as []*Term) string {
	ids := make([]int, len(as))
	for i, a := range as {
		ids[i] = a.id
	}
	sort.Ints(ids)
	var b strings.Builder
	for _, id := range ids {
		fmt.Fprintf(&b, "%x,", id)
	}
	return b.String()
}

// checkCached is Solver.Check behind a per-worker cache keyed by the set of asserted terms
// (terms are hash-consed, so equal constraints on different paths are the same query).
func (e *Engine) checkCached(as []*Term) (string, Model) {
	k := queryKey(as)
	if c, ok := e.qcache[k]; ok {
		e.cacheHits++
		return c.res, c.m
	}
	// second level: cache shared by all workers, keyed by the query text
	texts := make([]string, len(as))
	for i, a := range as {
		texts[i] = a.Text()
	}
	sort.Strings(texts)
	h := sha1.Sum([]byte(strings.Join(texts, "\n")))
	gk := string(h[:])
	globalCache.mu.RLock()
	c, ok := globalCache.m[gk]
	globalCache.mu.RUnlock()
	if ok {
		e.cacheHits++
		e.qcache[k] = c
		return c.res, c.m
	}
	if !e.opts.Deadline.IsZero() && time.Now().After(e.opts.Deadline) {
		// out of time: give the path up instead of starting another solver call
		panic(pathEnd{"inconclusive", "time limit reached inside a path"})
	}
	r, m := e.solver.Check(as, true)
	if len(e.qcache) > 400000 {
		e.qcache = map[string]cacheEnt{}
	}
	if r != "unknown" {
		e.qcache[k] = cacheEnt{r, m}
		globalCache.mu.Lock()
		if len(globalCache.m) > 2000000 {
			globalCache.m = map[string]cacheEnt{}
		}
		globalCache.m[gk] = cacheEnt{r, m}
		globalCache.mu.Unlock()
	}
	return r, m
}

var globalCache = struct {
	mu sync.RWMutex
	m  map[string]cacheEnt
}{m: map[string]cacheEnt{}}

// feasible decides pc_cone ∧ q. Unknown counts as feasible (recorded).
func (e *Engine) feasible(cone []*Term, q *Term) bool {
	as := append(append([]*Term{}, cone...), q)
	r, m := e.checkCached(as)
	switch r {
	case "sat":
		e.mergeModel(m)
		return true
	case "unsat":
		return false
	}
	e.unknownBr++
	return true
}

// decide forks on a boolean. Every symbolic decision (also a forced one) is recorded in the
// decision vector so that re-execution under a prefix is exact.
func (e *Engine) decide(c Sc) bool {
	if c.t == nil {
		return c.c != 0
	}
	var take bool
	if len(e.dec) < len(e.prefix) {
		take = e.prefix[len(e.dec)] != 0
	} else {
		if len(e.dec) >= e.opts.MaxDec {
			panic(pathEnd{"depth", "decision bound exceeded"})
		}
		cone := e.cone(c.t)
		var ft, ff bool
		if v, ok := e.evalUnderModel(cone, c.t); ok {
			if v {
				ft = true
				ff = e.feasible(cone, e.tt.Not(c.t))
			} else {
				ff = true
				ft = e.feasible(cone, c.t)
			}
		} else {
			ft = e.feasible(cone, c.t)
			ff = e.feasible(cone, e.tt.Not(c.t))
		}
		switch {
		case ft && ff:
			alt := make([]uint64, len(e.dec)+1)
			copy(alt, e.dec)
			alt[len(e.dec)] = 0
			e.alts = append(e.alts, alt)
			take = true
		case ft:
			take = true
		case ff:
			take = false
		default:
			panic(pathEnd{"infeasible", ""})
		}
	}
	if take {
		e.dec = append(e.dec, 1)
		e.addPC(c.t)
	} else {
		e.dec = append(e.dec, 0)
		e.addPC(e.tt.Not(c.t))
	}
	return take
}

// pick records a solver-chosen value in the decision vector (replayed verbatim under a prefix).
func (e *Engine) pick(s Sc) (uint64, bool) {
	if len(e.dec) < len(e.prefix) {
		v := e.prefix[len(e.dec)]
		e.dec = append(e.dec, v)
		return v, true
	}
	v, ok := e.modelValue(s)
	if !ok {
		return 0, false
	}
	e.dec = append(e.dec, v)
	return v, true
}

// modelValue returns some feasible value of s under the current path condition.
func (e *Engine) modelValue(s Sc) (uint64, bool) {
	cone := e.cone(s.t)
	if e.lastModel != nil {
		memo := map[*Term]uint64{}
		good := true
		for _, c := range cone {
			v, ok := c.Eval(e.lastModel, memo)
			if !ok || v == 0 {
				good = false
				break
			}
		}
		if good {
			if v, ok := s.t.Eval(e.lastModel, memo); ok {
				return v, true
			}
		}
	}
	probe := e.tt.Var(fmt.Sprintf("probe!%d", s.w), s.w)
	as := append(append([]*Term{}, cone...), e.tt.Eq(probe, s.t))
	r, m := e.solver.Check(as, true)
	if r != "sat" {
		if r == "unknown" {
			panic(pathEnd{"inconclusive", "solver unknown while concretising"})
		}
		return 0, false
	}
	v := m[probe.name]
	delete(m, probe.name)
	e.mergeModel(m)
	return v, true
}

// fullModel solves the whole path condition (plus extra) for the values of all nondet inputs.
func (e *Engine) fullModel(extra ...*Term) ([]ReplayVal, bool) {
	e.noteModel = nil
	as := append([]*Term{}, e.pc...)
	as = append(as, extra...)
	// definitions in the cone of everything asserted
	seen := map[int32]bool{}
	var todo []*Term
	todo = append(todo, as...)
	for _, n := range e.nondet {
		_ = n
	}
	for len(todo) > 0 {
		t := todo[len(todo)-1]
		todo = todo[:len(todo)-1]
		for _, v := range t.Vars() {
			if seen[v] {
				continue
			}
			seen[v] = true
			if d, ok := e.defs[v]; ok {
				as = append(as, d)
				todo = append(todo, d)
			}
		}
	}
	r, m := e.solver.Check(as, true)
	if r != "sat" {
		return nil, false
	}
	vals := make([]ReplayVal, len(e.nondet))
	for i, n := range e.nondet {
		vals[i] = ReplayVal{Name: n.Name, W: n.W, V: m[n.t.name]}
	}
	e.noteModel = m
	return vals, true
}

// ---------- work queue ----------

type workQueue struct {
	mu     sync.Mutex
	cond   *sync.Cond
	items  [][]uint64
	active int
	closed bool
}

func newWorkQueue() *workQueue {
	q := &workQueue{}
	q.cond = sync.NewCond(&q.mu)
	q.items = [][]uint64{{}}
	return q
}

func (q *workQueue) pop() ([]uint64, bool) {
	q.mu.Lock()
	defer q.mu.Unlock()
	for {
		if q.closed {
			return nil, false
		}
		if n := len(q.items); n > 0 {
			it := q.items[n-1]
			q.items = q.items[:n-1]
			q.active++
			return it, true
		}
		if q.active == 0 {
			q.closed = true
			q.cond.Broadcast()
			return nil, false
		}
		q.cond.Wait()
	}
}

func (q *workQueue) done(alts [][]uint64) {
	q.mu.Lock()
	q.items = append(q.items, alts...)
	q.active--
	q.cond.Broadcast()
	q.mu.Unlock()
}

func (q *workQueue) close() {
	q.mu.Lock()
	q.closed = true
	q.cond.Broadcast()
	q.mu.Unlock()
}

func decString(d []uint64) string {
	var b strings.Builder
	for _, x := range d {
		if x <= 1 {
			b.WriteByte(byte('0' + x))
		} else {
			fmt.Fprintf(&b, "<%d>", x)
		}
	}
	return b.String()
}

// runPath executes the harness once under the given decision prefix.
func (e *Engine) runPath(h *ssa.Function, prefix []uint64, res *Result) {
	e.resetPath(prefix)
	e.res = res
	kind, label, msg := "ok", "", ""
	var extra []*Term
	func() {
		defer func() {
			r := recover()
			if r == nil {
				return
			}
			switch pe := r.(type) {
			case pathEnd:
				kind, msg = pe.kind, pe.msg
				if pe.kind == "violation" {
					label = pe.msg
				}
			case *goPanic:
				kind, msg = "panic", pe.msg
			case violationEnd:
				kind, label, msg = "violation", pe.label, pe.msg
				extra = pe.extra
			default:
				// an engine bug or an SSA shape the interpreter does not handle: the path is inconclusive
				kind, msg = "unsupported", fmt.Sprintf("engine panic: %v", r)
				if !e.reportedPanic {
					e.reportedPanic = true
					fmt.Fprintf(os.Stderr, "ENGINE PANIC (path marked inconclusive): %v\n%s\n", r, debug.Stack())
				}
			}
		}()
		e.call(h, nil, nil)
	}()
	res.mu.Lock()
	defer res.mu.Unlock()
	res.Paths++
	res.UnknownBr += e.unknownBr
	res.MapRanges += e.notesMapRange
	e.notesMapRange = 0
	for _, c := range e.pathCovers {
		res.Covers[c]++
	}
	weight := func(vals []ReplayVal) uint64 {
		var w uint64
		for _, x := range vals {
			if x.V < 1<<32 {
				w += x.V
			}
		}
		return w
	}
	record := func(vk, lbl string) {
		key := vk + ":" + lbl
		res.ViolCount[key]++
		over := res.ViolCount[key] > e.opts.MaxViol
		if over && vk != "fuel" {
			return
		}
		vals, ok := e.fullModel(extra...)
		v := Violation{Harness: h.Name(), Kind: vk, Label: lbl, Msg: msg, Values: vals, Dec: decString(e.dec), Notes: e.renderNotes(vals)}
		if !ok {
			v.Extra = map[string]string{"model": "unavailable (solver did not return sat on the full path condition)"}
		}
		if over {
			// budget exhaustion is confirmed by a native timeout: keep the heaviest inputs (largest
			// sizes/depths), which are the ones that take longest natively
			mi := -1
			for i := range res.Violations {
				if res.Violations[i].Kind == vk && res.Violations[i].Label == lbl && (mi < 0 || weight(res.Violations[i].Values) < weight(res.Violations[mi].Values)) {
					mi = i
				}
			}
			if mi >= 0 && weight(vals) > weight(res.Violations[mi].Values) {
				res.Violations[mi] = v
			}
			return
		}
		res.Violations = append(res.Violations, v)
	}
	switch kind {
	case "ok":
		res.Completed++
		if len(res.Samples) < 6 || (res.Completed%97 == 0 && len(res.Samples) < 24) {
			if vals, ok := e.fullModel(); ok {
				s := map[string]interface{}{"harness": h.Name(), "decisions": decString(e.dec), "inputs": vals}
				if n := e.renderNotes(vals); len(n) > 0 {
					s["notes"] = n
				}
				res.Samples = append(res.Samples, s)
			}
		}
	case "assume":
		res.Assumed++
	case "infeasible":
		res.Infeasible++
	case "violation":
		record("assert", label)
	case "panic":
		record("panic", normPanic(firstLine(msg)))
	case "fuel":
		record("fuel", "instruction budget")
	case "exit":
		res.Completed++
	default: // unsupported, inconclusive, depth
		res.Inconclusive[kind+": "+msg]++
	}
}

// normPanic removes the varying numbers from a runtime panic message so that it can serve as a label.
func normPanic(s string) string {
	var b strings.Builder
	prevDigit := false
	for _, r := range s {
		if r >= '0' && r <= '9' {
			if !prevDigit {
				b.WriteByte('N')
			}
			prevDigit = true
			continue
		}
		prevDigit = false
		b.WriteRune(r)
	}
	out := b.String()
	if len(out) > 90 {
		out = out[:90]
	}
	return out
}

func firstLine(s string) string {
	if i := strings.IndexByte(s, '\n'); i >= 0 {
		return s[:i]
	}
	return s
}

type violationEnd struct {
	label string
	msg   string
	extra []*Term
}

func (e *Engine) renderNotes(vals []ReplayVal) []string {
	if len(e.notes) == 0 {
		return nil
	}
	out := make([]string, 0, len(e.notes))
	for _, n := range e.notes {
		out = append(out, n.label+"="+e.renderWithModel(n.v, e.noteModel))
	}
	return out
}

// renderWithModel prints a value, substituting model values for symbolic parts.
func (e *Engine) renderWithModel(v Val, m Model) string {
	if i, ok := v.(If); ok {
		v = i.v
	}
	memo := map[*Term]uint64{}
	num := func(t *Term) (uint64, bool) {
		if m == nil {
			return 0, false
		}
		return t.Eval(m, memo)
	}
	switch x := v.(type) {
	case Sc:
		c := x.c
		if x.t != nil {
			val, ok := num(x.t)
			if !ok {
				return "<sym>"
			}
			c = val
		}
		if x.w == 0 {
			return fmt.Sprint(c != 0)
		}
		return fmt.Sprint(sextW(x.w, c))
	case Str:
		return string(x)
	case SStr:
		b := make([]byte, len(x))
		for i, s := range x {
			b[i] = byte(s.c)
			if s.t != nil {
				if val, ok := num(s.t); ok {
					b[i] = byte(val)
				} else {
					b[i] = '?'
				}
			}
		}
		return fmt.Sprintf("%q", string(b))[1 : len(fmt.Sprintf("%q", string(b)))-1]
	case SAtom:
		val, ok := num(x.arg)
		if !ok {
			return "<" + x.fn + ">"
		}
		switch x.fn {
		case "itoa":
			return fmt.Sprint(int64(val))
		case "utoa":
			return fmt.Sprint(val)
		default:
			return fmt.Sprint(math.Float64frombits(val))
		}
	case SCat:
		s := ""
		for _, p := range x {
			s += e.renderWithModel(p, m)
		}
		return s
	}
	return describe(v)
}

// runHarness explores all paths of h.
func runHarness(prog *ssa.Program, h *ssa.Function, opts *Options) *Result {
	res := &Result{Harness: h.Name(), ViolCount: map[string]int{}, Inconclusive: map[string]int{}, Covers: map[string]int{}, Funcs: map[string]bool{}}
	t0 := time.Now()
	q := newWorkQueue()
	var wg sync.WaitGroup
	var emu sync.Mutex
	for w := 0; w < opts.Workers; w++ {
		wg.Add(1)
		go func(id int) {
			defer wg.Done()
			e := newEngine(prog, opts, id)
			defer func() {
				if r := recover(); r != nil {
					fmt.Fprintf(os.Stderr, "ENGINE PANIC in worker %d: %v\n", id, r)
					res.mu.Lock()
					res.Inconclusive[fmt.Sprintf("engine panic: %v", r)]++
					res.mu.Unlock()
					q.close()
					panic(r)
				}
			}()
			for {
				prefix, ok := q.pop()
				if !ok {
					break
				}
				e.runPath(h, prefix, res)
				stop := false
				res.mu.Lock()
				if (opts.MaxPaths > 0 && res.Paths >= opts.MaxPaths) || (!opts.Deadline.IsZero() && time.Now().After(opts.Deadline)) {
					res.Truncated = true
					stop = true
				}
				if opts.StopViol > 0 {
					nv := 0
					for k, n := range res.ViolCount {
						if !strings.HasPrefix(k, "fuel:") {
							// budget exhaustion is confirmed natively on the heaviest inputs: keep looking for them
							nv += n
						}
					}
					if nv >= opts.StopViol {
						// the verdict is settled by the violations already recorded
						res.Truncated = true
						stop = true
					}
				}
				res.mu.Unlock()
				if stop {
					q.done(nil)
					q.close()
					break
				}
				q.done(e.alts)
			}
			emu.Lock()
			res.Queries += e.solver.Queries
			res.Sat += e.solver.Sat
			res.Unsat += e.solver.Unsat
			res.Unknown += e.solver.Unknown
			res.SolverErrors += e.solver.Errors
			res.SolverDur += e.solver.Dur
			res.Instrs += e.instrs
			res.CacheHits += e.cacheHits
			for f := range e.funcsSeen {
				res.Funcs[f.String()] = true
			}
			emu.Unlock()
			e.solver.Close()
		}(w)
	}
	wg.Wait()
	res.Wall = time.Since(t0)
	return res
}
