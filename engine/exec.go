// The SSA interpreter.
package main

import (
	"fmt"
	"go/token"
	"go/types"
	"os"
	"strings"

	"golang.org/x/tools/go/ssa"
)

var debugStack = os.Getenv("GOSYM_STACK") != ""

type deferred struct {
	fn   *Fn
	args []Val
	bi   string
	meth *ssa.Function
}

type frame struct {
	cf     *cFunc
	regs   []Val
	defers []deferred
	start  *cBlock // block to start at (nil: entry); the Recover block after a recovered panic
}

func (e *Engine) get(fr *frame, o *opnd) Val {
	switch o.kind {
	case opReg:
		return fr.regs[o.idx]
	case opConst:
		return o.v
	case opZero:
		return e.zero(o.t)
	case opGlobal:
		return e.global(o.g)
	case opFunc:
		return e.fnVal(o.fn)
	case opNone:
		return nil
	}
	panic("bad operand")
}

func (e *Engine) fnVal(f *ssa.Function) *Fn {
	if v, ok := e.fnvals[f]; ok {
		return v
	}
	v := &Fn{f: f}
	e.fnvals[f] = v
	return v
}

func (e *Engine) unsupported(format string, args ...interface{}) {
	panic(pathEnd{"unsupported", fmt.Sprintf(format, args...)})
}

// callFn calls a function value.
func (e *Engine) callFn(fn *Fn, args []Val) Val {
	if fn == nil {
		panic(&goPanic{msg: "runtime error: invalid memory address or nil pointer dereference (nil func)"})
	}
	return e.call(fn.f, args, fn.env)
}

func (e *Engine) call(f *ssa.Function, args []Val, env []Val) Val {
	if r, ok := e.intrinsic(f, args); ok {
		return r
	}
	return e.callBody(f, args, env)
}

// callBody interprets f's SSA body (no intrinsic lookup).
func (e *Engine) callBody(f *ssa.Function, args []Val, env []Val) Val {
	if len(f.Blocks) == 0 {
		e.unsupported("call of function without body: %s", f.String())
	}
	cf := e.compile(f)
	if debugStack {
		e.dbgStack = append(e.dbgStack, f.String())
		defer func() { e.dbgStack = e.dbgStack[:len(e.dbgStack)-1] }()
	}
	e.depth++
	if e.depth > e.maxDepth {
		panic(pathEnd{"depth", "call depth bound exceeded in " + f.String()})
	}
	fr := &frame{cf: cf, regs: make([]Val, cf.nregs)}
	for i, r := range cf.params {
		fr.regs[r] = args[i]
	}
	for i, r := range cf.freevars {
		fr.regs[r] = env[i]
	}
	if e.funcsSeen != nil {
		e.funcsSeen[f] = true
	}
	var res Val
	if cf.hasDefer {
		res = e.runWithDefers(fr)
	} else {
		res = e.run(fr)
	}
	e.depth--
	return res
}

func (e *Engine) runWithDefers(fr *frame) (res Val) {
	depth := e.depth
	defer func() {
		if r := recover(); r != nil {
			gp, ok := r.(*goPanic)
			if !ok {
				panic(r)
			}
			e.depth = depth
			// run the deferred calls; one of them may call recover()
			saved := e.curPanic
			e.curPanic = gp
			e.runDefers(fr)
			recovered := e.curPanic == nil
			e.curPanic = saved
			if !recovered {
				panic(gp)
			}
			// recovered: the function returns to its caller through its Recover block (named
			// results as they are), or with zero results when it has none
			if fr.cf.recover != nil {
				fr.start = fr.cf.recover
				res = e.run(fr)
				return
			}
			sig := fr.cf.fn.Signature.Results()
			switch sig.Len() {
			case 0:
				res = nil
			case 1:
				res = e.zero(sig.At(0).Type())
			default:
				res = e.zero(sig)
			}
		}
	}()
	return e.run(fr)
}

func (e *Engine) runDefers(fr *frame) {
	for len(fr.defers) > 0 {
		d := fr.defers[len(fr.defers)-1]
		fr.defers = fr.defers[:len(fr.defers)-1]
		switch {
		case d.meth != nil:
			e.call(d.meth, d.args, nil)
		case d.fn != nil:
			e.callFn(d.fn, d.args)
		default:
			e.unsupported("deferred builtin %s", d.bi)
		}
	}
}

func (e *Engine) run(fr *frame) Val {
	cf := fr.cf
	b := cf.blocks[0]
	if fr.start != nil {
		b = fr.start
	}
	var phiTmp []Val
	for {
		var next *cBlock
		var edge int
	instrs:
		for k := range b.instrs {
			ci := &b.instrs[k]
			e.instrs++
			e.fuel--
			if e.fuel < 0 {
				panic(pathEnd{"fuel", "instruction budget exhausted in " + cf.fn.String()})
			}
			switch ci.code {
			case iAlloc:
				in := ci.in.(*ssa.Alloc)
				var z Val = e.zero(in.Type().Underlying().(*types.Pointer).Elem())
				fr.regs[ci.dst] = &z
			case iStore:
				addr := e.get(fr, &ci.ops[0])
				v := e.get(fr, &ci.ops[1])
				e.store(addr, v)
			case iUnOp:
				in := ci.in.(*ssa.UnOp)
				x := e.get(fr, &ci.ops[0])
				fr.regs[ci.dst] = e.unop(in, ci, x)
			case iBinOp:
				in := ci.in.(*ssa.BinOp)
				fr.regs[ci.dst] = e.binop(in.Op, in.X.Type(), ci.ti, ci.ti2, e.get(fr, &ci.ops[0]), e.get(fr, &ci.ops[1]))
			case iFieldAddr:
				in := ci.in.(*ssa.FieldAddr)
				p := e.derefable(e.get(fr, &ci.ops[0]))
				st, ok := (*p).(St)
				if !ok {
					e.unsupported("FieldAddr on %T", *p)
				}
				fr.regs[ci.dst] = &st[in.Field]
			case iField:
				in := ci.in.(*ssa.Field)
				fr.regs[ci.dst] = cp(e.get(fr, &ci.ops[0]).(St)[in.Field])
			case iIndexAddr:
				fr.regs[ci.dst] = e.indexAddr(ci, e.get(fr, &ci.ops[0]), e.get(fr, &ci.ops[1]))
			case iIndex:
				fr.regs[ci.dst] = e.index(ci, e.get(fr, &ci.ops[0]), e.get(fr, &ci.ops[1]))
			case iLookup:
				fr.regs[ci.dst] = e.lookup(ci, e.get(fr, &ci.ops[0]), e.get(fr, &ci.ops[1]))
			case iSlice:
				fr.regs[ci.dst] = e.slice(ci, fr)
			case iConvert:
				in := ci.in.(*ssa.Convert)
				fr.regs[ci.dst] = e.convert(in.X.Type(), in.Type(), ci.ti, ci.ti2, e.get(fr, &ci.ops[0]))
			case iChangeType, iChangeInterface:
				fr.regs[ci.dst] = e.get(fr, &ci.ops[0])
			case iMakeInterface:
				in := ci.in.(*ssa.MakeInterface)
				fr.regs[ci.dst] = If{t: in.X.Type(), v: cp(e.get(fr, &ci.ops[0]))}
			case iTypeAssert:
				fr.regs[ci.dst] = e.typeAssert(ci.in.(*ssa.TypeAssert), e.get(fr, &ci.ops[0]))
			case iExtract:
				in := ci.in.(*ssa.Extract)
				fr.regs[ci.dst] = e.get(fr, &ci.ops[0]).(Tu)[in.Index]
			case iCall:
				in := ci.in.(*ssa.Call)
				fr.regs[ci.dst] = e.doCall(fr, ci, &in.Call)
			case iDefer:
				in := ci.in.(*ssa.Defer)
				e.doDefer(fr, ci, &in.Call)
			case iRunDefers:
				e.runDefers(fr)
			case iMakeClosure:
				fn := ci.ops[0].fn
				env := make([]Val, len(ci.ops)-1)
				for i := range env {
					env[i] = e.get(fr, &ci.ops[i+1])
				}
				fr.regs[ci.dst] = &Fn{f: fn, env: env}
			case iMakeSlice:
				in := ci.in.(*ssa.MakeSlice)
				n := e.concreteInt(e.toInt(e.get(fr, &ci.ops[0]).(Sc), ci.ti), "make len")
				c := e.concreteInt(e.toInt(e.get(fr, &ci.ops[1]).(Sc), ci.ti2), "make cap")
				if n < 0 || c < n || c > 1<<24 {
					panic(&goPanic{msg: "runtime error: makeslice: len out of range"})
				}
				el := in.Type().Underlying().(*types.Slice).Elem()
				a := make([]Val, c)
				for i := range a {
					a[i] = e.zero(el)
				}
				fr.regs[ci.dst] = Sl{a: a[:n]}
			case iMakeMap:
				fr.regs[ci.dst] = &MapV{m: map[string]*mapEnt{}}
			case iMapUpdate:
				m := e.get(fr, &ci.ops[0]).(*MapV)
				if m == nil {
					panic(&goPanic{msg: "assignment to entry in nil map"})
				}
				k := e.get(fr, &ci.ops[1])
				ks := e.mapKey(k)
				if ent, ok := m.m[ks]; ok && !ent.dead {
					ent.v = cp(e.get(fr, &ci.ops[2]))
				} else {
					m.m[ks] = &mapEnt{k: cp(k), v: cp(e.get(fr, &ci.ops[2]))}
					m.keys = append(m.keys, ks)
				}
			case iRange:
				x := e.get(fr, &ci.ops[0])
				switch x := x.(type) {
				case *MapV:
					it := &iter{m: x}
					if x != nil {
						for _, k := range x.keys {
							if ent, ok := x.m[k]; ok && !ent.dead {
								it.keys = append(it.keys, k)
							}
						}
					}
					e.notesMapRange++
					fr.regs[ci.dst] = it
				default:
					fr.regs[ci.dst] = &iter{s: bytesOf(x), str: true}
				}
			case iNext:
				fr.regs[ci.dst] = e.next(e.get(fr, &ci.ops[0]).(*iter))
			case iPanic:
				v := e.get(fr, &ci.ops[0])
				panic(&goPanic{v: v, msg: e.panicText(v)})
			case iIf:
				c := e.get(fr, &ci.ops[0]).(Sc)
				if e.decide(c) {
					next, edge = b.succs[0], b.predIx[0]
				} else {
					next, edge = b.succs[1], b.predIx[1]
				}
				break instrs
			case iJump:
				next, edge = b.succs[0], b.predIx[0]
				break instrs
			case iReturn:
				switch len(ci.ops) {
				case 0:
					return nil
				case 1:
					return e.get(fr, &ci.ops[0])
				}
				t := make(Tu, len(ci.ops))
				for i := range ci.ops {
					t[i] = e.get(fr, &ci.ops[i])
				}
				return t
			case iSliceToArrayPointer:
				e.unsupported("SliceToArrayPointer")
			default:
				e.unsupported("instruction %T in %s", ci.in, cf.fn.String())
			}
		}
		if next == nil {
			panic("fell off block in " + cf.fn.String())
		}
		// phis of next: parallel assignment
		if len(next.phis) > 0 {
			phiTmp = phiTmp[:0]
			for k := range next.phis {
				phiTmp = append(phiTmp, e.get(fr, &next.phis[k].ops[edge]))
			}
			for k := range next.phis {
				fr.regs[next.phis[k].dst] = phiTmp[k]
			}
		}
		b = next
	}
}

func (e *Engine) panicText(v Val) string {
	if i, ok := v.(If); ok {
		switch x := i.v.(type) {
		case Str:
			return string(x)
		case *Val:
			if i.t != nil {
				return "panic(" + i.t.String() + ")"
			}
		}
		if i.t != nil {
			return "panic(" + i.t.String() + ")"
		}
	}
	return "panic"
}

// derefable checks a pointer for nil and returns it.
func (e *Engine) derefable(v Val) *Val {
	switch p := v.(type) {
	case *Val:
		if p == nil {
			panic(&goPanic{msg: "runtime error: invalid memory address or nil pointer dereference"})
		}
		return p
	case *SymRef:
		return e.concretizeRef(p)
	}
	e.unsupported("dereference of %T", v)
	return nil
}

func (e *Engine) concretizeRef(r *SymRef) *Val {
	i := e.concretize(Sc{w: r.idx.w, t: r.idx}, "index")
	return &r.cells[i]
}

func (e *Engine) store(addr Val, v Val) {
	p := e.derefable(addr)
	assign(p, v)
}

func (e *Engine) load(addr Val) Val {
	if r, ok := addr.(*SymRef); ok {
		// ite chain over scalar cells
		first, ok := r.cells[0].(Sc)
		if ok {
			allSc := true
			for _, c := range r.cells {
				if s, ok := c.(Sc); !ok || s.w != first.w {
					allSc = false
					break
				}
			}
			if allSc {
				res := e.term(r.cells[len(r.cells)-1].(Sc))
				for i := len(r.cells) - 2; i >= 0; i-- {
					res = e.tt.Ite(e.tt.Eq(r.idx, e.tt.Const(r.idx.w, uint64(i))), e.term(r.cells[i].(Sc)), res)
				}
				return e.symSc(res)
			}
		}
		return cp(*e.concretizeRef(r))
	}
	p := e.derefable(addr)
	return cp(*p)
}

func (e *Engine) unop(in *ssa.UnOp, ci *cInstr, x Val) Val {
	switch in.Op {
	case token.MUL:
		return e.load(x)
	case token.NOT:
		return e.notSc(x.(Sc))
	case token.SUB:
		s := x.(Sc)
		if ci.ti.float {
			if s.t == nil {
				return Sc{w: s.w, c: s.c ^ (1 << uint(s.w-1))}
			}
			return e.symSc(e.tt.App("bvxor", s.w, s.t, e.tt.Const(s.w, 1<<uint(s.w-1))))
		}
		return e.intOp(token.SUB, ci.ti, ci.ti, Sc{w: s.w}, s)
	case token.XOR:
		s := x.(Sc)
		if s.t == nil {
			return Sc{w: s.w, c: maskW(s.w, ^s.c)}
		}
		return e.symSc(e.tt.App("bvnot", s.w, s.t))
	case token.ARROW:
		e.unsupported("channel receive")
	}
	e.unsupported("unop %s", in.Op)
	return nil
}

func (e *Engine) binop(op token.Token, t types.Type, ti, ti2 tinfo, x, y Val) Val {
	switch op {
	case token.EQL:
		return e.eqVal(t, x, y)
	case token.NEQ:
		return e.notSc(e.eqVal(t, x, y))
	}
	if ti.str {
		switch op {
		case token.ADD:
			return concat(x, y)
		case token.LSS, token.LEQ, token.GTR, token.GEQ:
			xs, ok1 := x.(Str)
			ys, ok2 := y.(Str)
			if !ok1 || !ok2 {
				e.unsupported("ordering of symbolic strings")
			}
			switch op {
			case token.LSS:
				return bsc(xs < ys)
			case token.LEQ:
				return bsc(xs <= ys)
			case token.GTR:
				return bsc(xs > ys)
			default:
				return bsc(xs >= ys)
			}
		}
		e.unsupported("string op %s", op)
	}
	a, ok1 := x.(Sc)
	b, ok2 := y.(Sc)
	if !ok1 || !ok2 {
		e.unsupported("binop %s on %T,%T", op, x, y)
	}
	if ti.w == 0 {
		return e.boolOp(op, a, b)
	}
	if ti.float {
		return e.floatOp(op, a, b)
	}
	return e.intOp(op, ti, ti2, a, b)
}

// toInt widens an index/length operand to a 64-bit int according to its static type.
func (e *Engine) toInt(v Sc, ti tinfo) Sc {
	if v.w == 64 || v.w == 0 {
		return v
	}
	if v.t == nil {
		if ti.signed {
			return Sc{w: 64, c: uint64(sextW(v.w, v.c))}
		}
		return Sc{w: 64, c: maskW(v.w, v.c)}
	}
	if ti.signed {
		return e.symSc(e.tt.SignExt(64-v.w, v.t))
	}
	return e.symSc(e.tt.ZeroExt(64-v.w, v.t))
}

// concreteInt requires a concrete (or concretizable) integer.
func (e *Engine) concreteInt(s Sc, what string) int {
	if s.t != nil {
		return e.concretize(s, what)
	}
	return int(sextW(s.w, s.c))
}

// concretize forks over the feasible values of s.
func (e *Engine) concretize(s Sc, what string) int {
	if s.t == nil {
		return int(sextW(s.w, s.c))
	}
	for n := 0; ; n++ {
		if n > e.maxConcretize {
			panic(pathEnd{"unsupported", "too many values when concretising " + what})
		}
		v, ok := e.pick(s)
		if !ok {
			panic(pathEnd{"infeasible", "concretize"})
		}
		eq := e.symSc(e.tt.Eq(s.t, e.tt.Const(s.w, v)))
		if e.decide(eq) {
			return int(sextW(s.w, v))
		}
	}
}

// boundsFork forks on 0 <= i < n (signed); returns after taking the panic path if out of range.
func (e *Engine) boundsCheck(i Sc, n int, msg string) {
	if i.t == nil {
		v := sextW(i.w, i.c)
		if v < 0 || v >= int64(n) {
			panic(&goPanic{msg: fmt.Sprintf("runtime error: %s [%d] with length %d", msg, v, n)})
		}
		return
	}
	in := e.symSc(e.tt.App("bvult", 0, i.t, e.tt.Const(i.w, uint64(n))))
	if !e.decide(in) {
		panic(&goPanic{msg: fmt.Sprintf("runtime error: %s with length %d", msg, n)})
	}
}

func (e *Engine) indexAddr(ci *cInstr, x, idx Val) Val {
	i := e.toInt(idx.(Sc), ci.ti)
	var cells []Val
	switch xv := x.(type) {
	case Sl:
		cells = xv.a
	case *Val:
		if xv == nil {
			panic(&goPanic{msg: "runtime error: invalid memory address or nil pointer dereference"})
		}
		st, ok := (*xv).(St)
		if !ok {
			e.unsupported("IndexAddr on pointer to %T", *xv)
		}
		cells = st
	default:
		e.unsupported("IndexAddr on %T", x)
	}
	e.boundsCheck(i, len(cells), "index out of range")
	if i.t != nil {
		if len(cells) == 1 {
			return &cells[0]
		}
		return &SymRef{cells: cells, idx: i.t}
	}
	return &cells[int(i.c)]
}

func (e *Engine) index(ci *cInstr, x, idx Val) Val {
	i := e.toInt(idx.(Sc), ci.ti)
	switch xv := x.(type) {
	case St:
		e.boundsCheck(i, len(xv), "index out of range")
		if i.t != nil {
			return e.load(&SymRef{cells: xv, idx: i.t})
		}
		return cp(xv[int(i.c)])
	case Str, SStr:
		return e.strIndex(xv, i)
	}
	e.unsupported("Index on %T", x)
	return nil
}

func (e *Engine) strIndex(x Val, i Sc) Val {
	if cs, ok := x.(Str); ok && i.t == nil {
		// concrete string, concrete index: no conversion of the whole string
		e.boundsCheck(i, len(cs), "index out of range")
		return u8(uint64(cs[int(i.c)]))
	}
	if ss, ok := x.(SStr); ok && i.t == nil {
		e.boundsCheck(i, len(ss), "index out of range")
		return ss[int(i.c)]
	}
	bs := bytesOf(x)
	e.boundsCheck(i, len(bs), "index out of range")
	if i.t != nil {
		cells := make([]Val, len(bs))
		for k := range bs {
			cells[k] = bs[k]
		}
		if len(cells) == 1 {
			return cells[0]
		}
		return e.load(&SymRef{cells: cells, idx: i.t})
	}
	return bs[int(i.c)]
}

func (e *Engine) mapKey(k Val) string {
	switch k := k.(type) {
	case Str:
		return "s:" + string(k)
	case Sc:
		if k.t != nil {
			e.unsupported("symbolic map key")
		}
		return fmt.Sprintf("i%d:%d", k.w, k.c)
	case SStr:
		e.unsupported("symbolic string map key")
	case If:
		if k.t == nil {
			return "nil"
		}
		return "I:" + k.t.String() + ":" + e.mapKey(k.v)
	case St:
		var b strings.Builder
		b.WriteString("{")
		for _, f := range k {
			b.WriteString(e.mapKey(f))
			b.WriteString(",")
		}
		b.WriteString("}")
		return b.String()
	case *Val:
		return fmt.Sprintf("p:%p", k)
	}
	e.unsupported("map key of %T", k)
	return ""
}

func (e *Engine) lookup(ci *cInstr, x, idx Val) Val {
	in := ci.in.(*ssa.Lookup)
	if m, ok := x.(*MapV); ok {
		var v Val
		found := false
		if m != nil {
			if ent, ok := m.m[e.mapKey(idx)]; ok && !ent.dead {
				v, found = cp(ent.v), true
			}
		}
		if !found {
			v = e.zero(in.X.Type().Underlying().(*types.Map).Elem())
		}
		if in.CommaOk {
			return Tu{v, bsc(found)}
		}
		return v
	}
	return e.strIndex(x, e.toInt(idx.(Sc), ci.ti))
}

func (e *Engine) next(it *iter) Val {
	if it.str {
		if it.pos >= len(it.s) {
			return Tu{bsc(false), isc(0), Sc{w: 32}}
		}
		b := it.s[it.pos]
		if b.t != nil {
			if !e.decide(e.symSc(e.tt.App("bvult", 0, b.t, e.tt.Const(8, 0x80)))) {
				e.unsupported("range over symbolic non-ASCII string")
			}
			r := Tu{bsc(true), isc(int64(it.pos)), e.symSc(e.tt.ZeroExt(24, b.t))}
			it.pos++
			return r
		}
		// concrete lead byte: decode natively if the whole rune is concrete
		n := 1
		for it.pos+n < len(it.s) && n < 4 && it.s[it.pos+n].t == nil {
			n++
		}
		buf := make([]byte, n)
		for k := 0; k < n; k++ {
			buf[k] = byte(it.s[it.pos+k].c)
		}
		var rn rune
		var size int
		for i, r := range string(buf) {
			if i == 0 {
				rn = r
				size = len(string(r))
				if r == 0xFFFD {
					size = 1
				}
			}
			break
		}
		if b.c < 0x80 {
			size = 1
		}
		r := Tu{bsc(true), isc(int64(it.pos)), Sc{w: 32, c: uint64(uint32(rn))}}
		it.pos += size
		return r
	}
	if it.pos >= len(it.keys) {
		return Tu{bsc(false), nil, nil}
	}
	k := it.keys[it.pos]
	it.pos++
	ent := it.m.m[k]
	if ent == nil || ent.dead {
		return e.next(it)
	}
	return Tu{bsc(true), cp(ent.k), cp(ent.v)}
}

func (e *Engine) slice(ci *cInstr, fr *frame) Val {
	x := e.get(fr, &ci.ops[0])
	var length, capacity int
	switch xv := x.(type) {
	case Str:
		length, capacity = len(xv), len(xv)
	case SStr:
		length, capacity = len(xv), len(xv)
	case SAtom, SCat:
		// text of formatted symbolic numbers: only the bounds check is modelled, the result is opaque
		n := e.symLen(xv).(Sc)
		ti := tinfo{w: 64, signed: true}
		lo, hi := isc(0), n
		if ci.ops[1].kind != opNone {
			lo = e.toInt(e.get(fr, &ci.ops[1]).(Sc), ci.tis[1])
		}
		if ci.ops[2].kind != opNone {
			hi = e.toInt(e.get(fr, &ci.ops[2]).(Sc), ci.tis[2])
		}
		ok := e.andSc(e.intOp(token.GEQ, ti, ti, lo, isc(0)), e.andSc(e.intOp(token.LEQ, ti, ti, lo, hi), e.intOp(token.LEQ, ti, ti, hi, n)))
		if !e.decide(ok) {
			panic(&goPanic{msg: "runtime error: slice bounds out of range (formatted string)"})
		}
		return SAtom{fn: "substr", arg: e.fresh("substr", 64).t}
	case Sl:
		length, capacity = len(xv.a), cap(xv.a)
	case *Val:
		if xv == nil {
			panic(&goPanic{msg: "runtime error: invalid memory address or nil pointer dereference"})
		}
		st, ok := (*xv).(St)
		if !ok {
			e.unsupported("slice of pointer to %T", *xv)
		}
		length, capacity = len(st), len(st)
	default:
		e.unsupported("slice of %T", x)
	}
	// operands: low (default 0), high (default len), max (default cap)
	bound := func(k int, def int) Sc {
		if ci.ops[k].kind == opNone {
			return isc(int64(def))
		}
		return e.toInt(e.get(fr, &ci.ops[k]).(Sc), ci.tis[k])
	}
	lo, hi, mx := bound(1, 0), bound(2, length), bound(3, capacity)
	if lo.t != nil || hi.t != nil || mx.t != nil {
		// decide the bounds check symbolically first: 0 <= lo <= hi <= max <= cap
		ti := tinfo{w: 64, signed: true}
		ok := e.andSc(e.intOp(token.GEQ, ti, ti, lo, isc(0)), e.intOp(token.LEQ, ti, ti, lo, hi))
		ok = e.andSc(ok, e.andSc(e.intOp(token.LEQ, ti, ti, hi, mx), e.intOp(token.LEQ, ti, ti, mx, isc(int64(capacity)))))
		if !e.decide(ok) {
			panic(&goPanic{msg: fmt.Sprintf("runtime error: slice bounds out of range (symbolic bounds) with capacity %d", capacity)})
		}
	}
	l, h, m := e.concreteInt(lo, "slice low"), e.concreteInt(hi, "slice high"), e.concreteInt(mx, "slice max")
	if l < 0 || h > capacity || l > h || m > capacity || h > m {
		if debugStack {
			fmt.Fprintf(os.Stderr, "SLICE PANIC [%d:%d] cap %d at %v\n", l, h, capacity, e.dbgStack)
		}
		panic(&goPanic{msg: fmt.Sprintf("runtime error: slice bounds out of range [%d:%d] with capacity %d", l, h, capacity)})
	}
	switch xv := x.(type) {
	case Str, SStr:
		bs := bytesOf(xv)
		return mkStr(bs[l:h:h])
	case Sl:
		if xv.a == nil {
			return Sl{}
		}
		return Sl{a: xv.a[l:h:m]}
	case *Val:
		st := (*xv).(St)
		return Sl{a: []Val(st)[l:h:m]}
	}
	return nil
}

func (e *Engine) implements(dyn types.Type, iface *types.Interface) bool {
	key := [2]types.Type{dyn, iface}
	if r, ok := e.implCache[key]; ok {
		return r
	}
	r := types.Implements(dyn, iface)
	e.implCache[key] = r
	return r
}

func (e *Engine) typeAssert(in *ssa.TypeAssert, x Val) Val {
	i, ok := x.(If)
	if !ok {
		e.unsupported("TypeAssert on %T", x)
	}
	var match bool
	if i.t != nil {
		if it, ok := in.AssertedType.Underlying().(*types.Interface); ok {
			match = e.implements(i.t, it)
		} else {
			match = types.Identical(i.t, in.AssertedType)
		}
	}
	_, toIface := in.AssertedType.Underlying().(*types.Interface)
	var res Val
	if match {
		if toIface {
			res = i
		} else {
			res = cp(i.v)
		}
	} else if in.CommaOk {
		res = e.zero(in.AssertedType)
	} else {
		dt := "nil"
		if i.t != nil {
			dt = i.t.String()
		}
		panic(&goPanic{msg: "interface conversion: interface is " + dt + ", not " + in.AssertedType.String()})
	}
	if in.CommaOk {
		return Tu{res, bsc(match)}
	}
	return res
}

func (e *Engine) lookupMethod(t types.Type, m *types.Func) *ssa.Function {
	key := methKey{t, m.Id()}
	if f, ok := e.methCache[key]; ok {
		return f
	}
	f := e.prog.LookupMethod(t, m.Pkg(), m.Name())
	e.methCache[key] = f
	return f
}

func (e *Engine) doCall(fr *frame, ci *cInstr, c *ssa.CallCommon) Val {
	if c.IsInvoke() {
		recv, ok := e.get(fr, &ci.ops[0]).(If)
		if !ok {
			e.unsupported("invoke on non-interface")
		}
		if recv.t == nil {
			panic(&goPanic{msg: "runtime error: invalid memory address or nil pointer dereference (nil interface method call " + c.Method.Name() + ")"})
		}
		if recv.t == sentinelType {
			if c.Method.Name() == "Error" {
				return recv.v
			}
			e.unsupported("method %s on opaque error value", c.Method.Name())
		}
		f := e.lookupMethod(recv.t, c.Method)
		if f == nil {
			e.unsupported("no method %s on %s", c.Method.Name(), recv.t)
		}
		args := make([]Val, len(ci.ops))
		args[0] = cp(recv.v)
		for i := 1; i < len(ci.ops); i++ {
			args[i] = cp(e.get(fr, &ci.ops[i]))
		}
		return e.call(f, args, nil)
	}
	args := make([]Val, len(ci.ops)-1)
	for i := range args {
		args[i] = cp(e.get(fr, &ci.ops[i+1]))
	}
	switch ci.ops[0].kind {
	case opBuiltin:
		return e.builtin(ci, ci.ops[0].bi, c, args)
	case opFunc:
		return e.call(ci.ops[0].fn, args, nil)
	}
	fn, ok := e.get(fr, &ci.ops[0]).(*Fn)
	if !ok {
		e.unsupported("call of %T", e.get(fr, &ci.ops[0]))
	}
	return e.callFn(fn, args)
}

func (e *Engine) doDefer(fr *frame, ci *cInstr, c *ssa.CallCommon) {
	if c.IsInvoke() {
		recv := e.get(fr, &ci.ops[0]).(If)
		if recv.t == nil {
			panic(&goPanic{msg: "nil interface in defer"})
		}
		f := e.lookupMethod(recv.t, c.Method)
		args := make([]Val, len(ci.ops))
		args[0] = cp(recv.v)
		for i := 1; i < len(ci.ops); i++ {
			args[i] = cp(e.get(fr, &ci.ops[i]))
		}
		fr.defers = append(fr.defers, deferred{meth: f, args: args})
		return
	}
	args := make([]Val, len(ci.ops)-1)
	for i := range args {
		args[i] = cp(e.get(fr, &ci.ops[i+1]))
	}
	switch ci.ops[0].kind {
	case opBuiltin:
		fr.defers = append(fr.defers, deferred{bi: ci.ops[0].bi.Name(), args: args})
	case opFunc:
		fr.defers = append(fr.defers, deferred{fn: e.fnVal(ci.ops[0].fn), args: args})
	default:
		fn, _ := e.get(fr, &ci.ops[0]).(*Fn)
		fr.defers = append(fr.defers, deferred{fn: fn, args: args})
	}
}

func (e *Engine) builtin(ci *cInstr, bi *ssa.Builtin, c *ssa.CallCommon, args []Val) Val {
	switch bi.Name() {
	case "len":
		switch x := args[0].(type) {
		case Str:
			return isc(int64(len(x)))
		case SStr:
			return isc(int64(len(x)))
		case Sl:
			return isc(int64(len(x.a)))
		case *MapV:
			if x == nil {
				return isc(0)
			}
			n := 0
			for _, ent := range x.m {
				if !ent.dead {
					n++
				}
			}
			return isc(int64(n))
		case St:
			return isc(int64(len(x)))
		case *Val:
			if st, ok := (*x).(St); ok {
				return isc(int64(len(st)))
			}
		case SAtom, SCat:
			return e.symLen(x)
		}
		e.unsupported("len of %T", args[0])
	case "cap":
		switch x := args[0].(type) {
		case Sl:
			return isc(int64(cap(x.a)))
		case St:
			return isc(int64(len(x)))
		}
		e.unsupported("cap of %T", args[0])
	case "append":
		return e.appendSl(c.Args[0].Type(), args[0], args[1])
	case "copy":
		dst := args[0].(Sl)
		var n int
		switch src := args[1].(type) {
		case Sl:
			n = len(src.a)
			if len(dst.a) < n {
				n = len(dst.a)
			}
			// memmove semantics: handle overlap by staging
			tmp := make([]Val, n)
			for i := 0; i < n; i++ {
				tmp[i] = cp(src.a[i])
			}
			for i := 0; i < n; i++ {
				assign(&dst.a[i], tmp[i])
			}
		default:
			bs := bytesOf(args[1])
			n = len(bs)
			if len(dst.a) < n {
				n = len(dst.a)
			}
			for i := 0; i < n; i++ {
				dst.a[i] = bs[i]
			}
		}
		return isc(int64(n))
	case "min", "max":
		t := c.Args[0].Type()
		ti := scalarInfo(t)
		res := args[0]
		for _, a := range args[1:] {
			op := token.LSS
			if bi.Name() == "max" {
				op = token.GTR
			}
			lt := e.binop(op, t, ti, ti, a, res).(Sc)
			if lt.t == nil {
				if lt.c != 0 {
					res = a
				}
				continue
			}
			if ti.float || ti.w <= 0 {
				if e.decide(lt) {
					res = a
				}
				continue
			}
			res = e.symSc(e.tt.Ite(lt.t, e.term(a.(Sc)), e.term(res.(Sc))))
		}
		return res
	case "delete":
		m := args[0].(*MapV)
		if m != nil {
			if ent, ok := m.m[e.mapKey(args[1])]; ok {
				ent.dead = true
				delete(m.m, e.mapKey(args[1]))
			}
		}
		return nil
	case "clear":
		switch x := args[0].(type) {
		case *MapV:
			if x != nil {
				x.m = map[string]*mapEnt{}
				x.keys = nil
			}
		case Sl:
			el := c.Args[0].Type().Underlying().(*types.Slice).Elem()
			for i := range x.a {
				assign(&x.a[i], e.zero(el))
			}
		}
		return nil
	case "SliceData":
		// unsafe.SliceData: kept as the slice itself; only unsafe.String reads it back
		return sliceData{args[0].(Sl)}
	case "String":
		// unsafe.String(unsafe.SliceData(b), n): the first n bytes as an (immutable) string
		sd, ok := args[0].(sliceData)
		if !ok {
			e.unsupported("unsafe.String of a pointer that is not slice data")
		}
		n := e.argInt(args[1], "unsafe.String length")
		b := make([]Sc, n)
		for i := 0; i < n; i++ {
			b[i] = sd.s.a[i].(Sc)
		}
		return mkStr(b)
	case "print", "println":
		return nil
	case "recover":
		// recover() in a deferred call stops the panic being handled and returns its value
		if gp := e.curPanic; gp != nil {
			e.curPanic = nil
			if i, ok := gp.v.(If); ok && i.t != nil {
				return i
			}
			return If{t: sentinelType, v: Str(gp.msg)}
		}
		return If{}
	case "ssa:wrapnilchk":
		if p, ok := args[0].(*Val); ok && p == nil {
			panic(&goPanic{msg: "value method called using nil pointer"})
		}
		return args[0]
	}
	e.unsupported("builtin %s", bi.Name())
	return nil
}

// sliceData is the result of unsafe.SliceData.
type sliceData struct{ s Sl }

// symLen is the length of a string containing formatted symbolic numbers: each atom contributes a
// fresh length variable constrained to the range its formatter can produce.
func (e *Engine) symLen(v Val) Val {
	total := Sc{w: 64}
	ti := tinfo{w: 64, signed: true}
	for _, p := range strParts(v) {
		switch x := p.(type) {
		case SAtom:
			l, ok := e.atomLen[x.arg]
			if !ok {
				l = e.fresh("alen", 64)
				maxLen := uint64(20) // strconv.Itoa of an int64
				if x.fn == "ftoa" {
					maxLen = 24
				}
				e.addPC(e.tt.And(e.tt.App("bvuge", 0, l.t, e.tt.Const(64, 1)), e.tt.App("bvule", 0, l.t, e.tt.Const(64, maxLen))))
				e.atomLen[x.arg] = l
			}
			total = e.intOp(token.ADD, ti, ti, total, l)
		default:
			total = e.intOp(token.ADD, ti, ti, total, isc(int64(len(bytesOf(p)))))
		}
	}
	return total
}
