// Intrinsics: the harness API (internal/vrt), environment stubs, formatting, package initialisation.
package main

import (
	"fmt"
	"go/token"
	"go/types"
	"math"
	"strconv"
	"strings"

	"golang.org/x/tools/go/ssa"
)

const calcPath = "github.com/paulsonkoly/calc"

// packages whose init functions are interpreted per path
func pathInitPkg(p *ssa.Package) bool {
	return p != nil && strings.HasPrefix(p.Pkg.Path(), calcPath)
}

// packages whose globals are initialised once per worker and treated as immutable afterwards
var staticInitPkgs = map[string]bool{
	"strconv": true, "unicode/utf8": true, "strings": true, "container/list": true,
	"github.com/kamstrup/intmap": true, "math/bits": true, "slices": true, "sort": true,
	"bufio": true, "bytes": true, "unicode/utf16": true, "cmp": true,
}

func (e *Engine) global(g *ssa.Global) Val {
	if p, ok := e.globals[g]; ok {
		return p
	}
	if p, ok := e.staticGlobals[g]; ok {
		return p
	}
	pkg := g.Pkg
	if pathInitPkg(pkg) {
		if !e.inited[pkg] {
			e.runInit(pkg)
		}
		if p, ok := e.globals[g]; ok {
			return p
		}
		var z Val = e.zero(g.Type().(*types.Pointer).Elem())
		e.globals[g] = &z
		return &z
	}
	if pkg != nil && staticInitPkgs[pkg.Pkg.Path()] {
		if !e.staticInited[pkg] {
			e.runStaticInit(pkg)
		}
		if p, ok := e.staticGlobals[g]; ok {
			return p
		}
		var z Val = e.zero(g.Type().(*types.Pointer).Elem())
		e.staticGlobals[g] = &z
		return &z
	}
	// other packages: error sentinels become distinct opaque values, a few known handles are allowed
	el := g.Type().(*types.Pointer).Elem()
	if _, ok := el.Underlying().(*types.Interface); ok && (strings.HasPrefix(g.Name(), "Err") || g.Name() == "EOF" || strings.HasPrefix(g.Name(), "err")) {
		var z Val = If{t: sentinelType, v: Str(g.String())}
		e.staticGlobals[g] = &z
		return &z
	}
	switch g.String() {
	case "os.Stdin", "os.Stdout", "os.Stderr":
		var obj Val = Str(g.String())
		var z Val = &obj
		e.staticGlobals[g] = &z
		return &z
	}
	e.unsupported("read of uninitialised global %s", g.String())
	return nil
}

// sentinelType is the dynamic type given to opaque error sentinels of uninterpreted packages.
var sentinelType = types.NewNamed(types.NewTypeName(token.NoPos, nil, "vrtSentinelError", nil), types.Typ[types.String], nil)

func (e *Engine) runInit(pkg *ssa.Package) {
	e.inited[pkg] = true
	if f := pkg.Func("init"); f != nil {
		saved := e.fuel
		e.fuel = 1 << 40
		e.callBody(f, nil, nil)
		e.fuel = saved
	}
}

func (e *Engine) runStaticInit(pkg *ssa.Package) {
	e.staticInited[pkg] = true
	f := pkg.Func("init")
	if f == nil {
		return
	}
	// run with a global map redirected to the static store
	savedG, savedFuel := e.globals, e.fuel
	e.globals = e.staticGlobals
	e.fuel = 1 << 40
	e.callBody(f, nil, nil)
	e.globals = savedG
	e.fuel = savedFuel
}

func (e *Engine) argInt(v Val, what string) int {
	return e.concreteInt(v.(Sc), what)
}

func strArg(v Val) string {
	if s, ok := v.(Str); ok {
		return string(s)
	}
	return fmt.Sprintf("<%T>", v)
}

func (e *Engine) nondetScalar(name string, w int) Sc {
	s := e.fresh("n_"+sanitize(name), w)
	e.nondet = append(e.nondet, nondetRec{Name: name, W: w, t: s.t})
	return s
}

func sanitize(s string) string {
	var b strings.Builder
	for _, r := range s {
		if (r >= 'a' && r <= 'z') || (r >= 'A' && r <= 'Z') || (r >= '0' && r <= '9') {
			b.WriteRune(r)
		} else {
			b.WriteByte('_')
		}
	}
	return b.String()
}

func (e *Engine) assume(c Sc) {
	if c.t == nil {
		if c.c == 0 {
			panic(pathEnd{"assume", ""})
		}
		return
	}
	if len(e.dec) < len(e.prefix) {
		// during prefix replay assumptions are re-added without querying
		e.addPC(c.t)
		return
	}
	cone := e.cone(c.t)
	if v, ok := e.evalUnderModel(cone, c.t); ok && v {
		e.addPC(c.t)
		return
	}
	if !e.feasible(cone, c.t) {
		panic(pathEnd{"assume", ""})
	}
	e.addPC(c.t)
}

func (e *Engine) assert(c Sc, label string) {
	e.res.mu.Lock()
	e.res.Asserts++
	e.res.mu.Unlock()
	if c.t == nil {
		if c.c == 0 {
			panic(violationEnd{label: label, msg: "assertion " + label + " is false on this path"})
		}
		return
	}
	neg := e.tt.Not(c.t)
	cone := e.cone(neg)
	as := append(append([]*Term{}, cone...), neg)
	r, m := e.checkCached(as)
	e.res.mu.Lock()
	e.res.AssertsSym++
	if e.opts.CrossFrac > 0 && (e.res.AssertsSym%e.opts.CrossFrac == 0) && len(e.res.crossQ) < 4000 {
		e.res.crossQ = append(e.res.crossQ, crossQuery{text: queryText(as), expect: r})
	}
	e.res.mu.Unlock()
	switch r {
	case "unsat":
		return
	case "sat":
		e.mergeModel(m)
		panic(violationEnd{label: label, msg: "assertion " + label + " can fail", extra: []*Term{neg}})
	}
	panic(pathEnd{"inconclusive", "solver unknown on assertion " + label})
}

// queryText renders a standalone SMT-LIB script for cross-checking with another solver.
func queryText(as []*Term) string {
	var b strings.Builder
	seen := map[*Term]bool{}
	var vars []*Term
	for _, a := range as {
		collectVars(a, seen, &vars)
	}
	for _, v := range vars {
		fmt.Fprintf(&b, "(declare-const %s %s)\n", v.name, sortName(v.w))
	}
	for _, a := range as {
		b.WriteString("(assert " + a.Text() + ")\n")
	}
	return b.String()
}

func (e *Engine) vrtCall(name string, f *ssa.Function, args []Val) (Val, bool) {
	switch name {
	case "Int", "Int64":
		return e.nondetScalar(strArg(args[0]), 64), true
	case "Uint64":
		return e.nondetScalar(strArg(args[0]), 64), true
	case "Int32":
		return e.nondetScalar(strArg(args[0]), 32), true
	case "Byte":
		return e.nondetScalar(strArg(args[0]), 8), true
	case "Bool":
		return e.nondetScalar(strArg(args[0]), 0), true
	case "Choice":
		n := e.argInt(args[1], "Choice n")
		s := e.nondetScalar(strArg(args[0]), 64)
		e.assume(e.symSc(e.tt.App("bvult", 0, s.t, e.tt.Const(64, uint64(n)))))
		return isc(int64(e.concretize(s, "Choice"))), true
	case "Range":
		lo, hi := args[1].(Sc), args[2].(Sc)
		s := e.nondetScalar(strArg(args[0]), 64)
		ti := tinfo{w: 64, signed: true}
		e.assume(e.intOp(token.GEQ, ti, ti, s, lo))
		e.assume(e.intOp(token.LEQ, ti, ti, s, hi))
		return s, true
	case "Param":
		if v, ok := e.opts.Params[strArg(args[0])]; ok {
			return isc(int64(v)), true
		}
		return args[1], true
	case "Or":
		return e.orSc(args[0].(Sc), args[1].(Sc)), true
	case "And":
		return e.andSc(args[0].(Sc), args[1].(Sc)), true
	case "Not":
		return e.notSc(args[0].(Sc)), true
	case "Concrete":
		return isc(int64(e.concretize(args[0].(Sc), "Concrete"))), true
	case "Bytes":
		n := e.argInt(args[1], "Bytes n")
		ss := make(SStr, n)
		for i := range ss {
			ss[i] = e.nondetScalar(fmt.Sprintf("%s[%d]", strArg(args[0]), i), 8)
		}
		if n == 0 {
			return Str(""), true
		}
		return ss, true
	case "Assume":
		e.assume(args[0].(Sc))
		return nil, true
	case "Assert":
		e.assert(args[0].(Sc), strArg(args[1]))
		return nil, true
	case "Fail":
		panic(violationEnd{label: strArg(args[0]), msg: "reached vrt.Fail(" + strArg(args[0]) + ")"})
	case "Cover":
		e.pathCovers = append(e.pathCovers, strArg(args[0]))
		return nil, true
	case "Fuel":
		e.fuel = e.argInt(args[0], "Fuel")
		return nil, true
	case "Try":
		return e.vrtTry(args[0].(*Fn)), true
	case "TryMsg":
		return Str(e.lastPanicMsg), true
	case "Note":
		e.notes = append(e.notes, noteRec{label: strArg(args[0]), v: args[1]})
		return nil, true
	case "CaptureStart":
		e.out = nil
		return nil, true
	case "CapturedAll":
		var all Val = Str("")
		for _, ev := range e.out {
			if ev.kind == "print" || ev.kind == "println" || ev.kind == "printf" {
				all = concat(all, ev.text)
			}
		}
		e.out = nil
		return all, true
	case "Captured":
		// everything printed up to the interpreter's runtime error report (as the native capture)
		var out Val = Str("")
		for _, ev := range e.out {
			if strings.HasPrefix(ev.format, "RUNTIME ERROR") {
				break
			}
			if ev.kind == "print" || ev.kind == "println" || ev.kind == "printf" {
				out = concat(out, ev.text)
			}
		}
		e.out = nil
		return out, true
	case "IsSymbolic":
		return bsc(true), true
	case "Output":
		return e.vrtOutput(), true
	case "OutputReset":
		e.out = nil
		return nil, true
	case "SetStdin":
		e.stdin = &stdinModel{data: bytesOf(args[0])}
		return nil, true
	case "TempFile":
		if e.files == nil {
			e.files = map[string][]Sc{}
		}
		name := fmt.Sprintf("/vrt/file%d", len(e.files))
		e.files[name] = bytesOf(args[0])
		return Str(name), true
	case "StdinChunks":
		if e.stdin != nil {
			e.stdin.chunked = true
		}
		return nil, true
	}
	return nil, false
}

func (e *Engine) vrtTry(fn *Fn) (res Val) {
	depth := e.depth
	e.inTry++
	defer func() {
		e.inTry--
		if r := recover(); r != nil {
			gp, ok := r.(*goPanic)
			if !ok {
				panic(r)
			}
			e.depth = depth
			e.lastPanicMsg = gp.msg
			res = bsc(true)
		}
	}()
	e.callFn(fn, nil)
	return bsc(false)
}

func (e *Engine) renderVal(v Val) string {
	if i, ok := v.(If); ok {
		v = i.v
	}
	switch x := v.(type) {
	case Sc:
		if x.t != nil {
			return "<sym>"
		}
		if x.w == 0 {
			return strconv.FormatBool(x.c != 0)
		}
		return strconv.FormatInt(sextW(x.w, x.c), 10)
	case Str:
		return string(x)
	}
	return describe(v)
}

// ---------- std intrinsics ----------

func (e *Engine) intrinsic(f *ssa.Function, args []Val) (Val, bool) {
	if f.Pkg != nil && strings.HasSuffix(f.Pkg.Pkg.Path(), "/internal/vrt") {
		if r, ok := e.vrtCall(f.Name(), f, args); ok {
			return r, true
		}
		return nil, false
	}
	name := f.String()
	if o := f.Origin(); o != nil {
		name = o.String()
	}
	if e.overrides != nil {
		if ov, ok := e.overrides[name]; ok {
			return e.callFn(ov, args), true
		}
	}
	if f.Name() == "init" && f.Signature.Recv() == nil && f.Pkg != nil && f.Synthetic != "" {
		// package initialiser reached from another package's init
		if pathInitPkg(f.Pkg) {
			if !e.inited[f.Pkg] {
				e.runInit(f.Pkg)
			}
			return nil, true
		}
		if staticInitPkgs[f.Pkg.Pkg.Path()] {
			if !e.staticInited[f.Pkg] {
				e.runStaticInit(f.Pkg)
			}
			return nil, true
		}
		return nil, true // uninterpreted package: reads of its globals are reported when they happen
	}
	h, ok := intrinsics[name]
	if !ok {
		return nil, false
	}
	r := h(e, f, args)
	if r == notHandled {
		return nil, false // the model does not apply to these arguments: interpret the body
	}
	return r, true
}

type notHandledT struct{}

var notHandled Val = notHandledT{}

// isStdin tells whether an io.Reader value is os.Stdin.
func isStdin(v Val) bool {
	i, ok := v.(If)
	if !ok {
		return false
	}
	p, ok := i.v.(*Val)
	if !ok || p == nil {
		return false
	}
	s, ok := (*p).(Str)
	return ok && s == "os.Stdin"
}

type intrinsicFn func(e *Engine, f *ssa.Function, args []Val) Val

var intrinsics map[string]intrinsicFn

func init() {
	intrinsics = map[string]intrinsicFn{
		"log.Panicf": func(e *Engine, f *ssa.Function, a []Val) Val {
			panic(&goPanic{msg: "log.Panicf: " + e.sprintf(a[0], a[1])})
		},
		"log.Panic": func(e *Engine, f *ssa.Function, a []Val) Val {
			panic(&goPanic{msg: "log.Panic: " + e.sprint(a[0], false)})
		},
		"log.Fatal": func(e *Engine, f *ssa.Function, a []Val) Val {
			panic(pathEnd{"exit", "log.Fatal"})
		},
		"os.Exit": func(e *Engine, f *ssa.Function, a []Val) Val {
			e.out = append(e.out, outEvent{kind: "exit", text: Str("exit")})
			panic(pathEnd{"exit", "os.Exit"})
		},
		"fmt.Errorf": func(e *Engine, f *ssa.Function, a []Val) Val {
			// an opaque error value whose text is the formatted message (wrapped errors by their text)
			if txt, ok := e.sprintfVal(a[0], a[1]).(Str); ok {
				return If{t: sentinelType, v: txt}
			}
			return If{t: sentinelType, v: Str("fmt.Errorf:" + strArg(a[0]))}
		},
		"fmt.Sprintf": func(e *Engine, f *ssa.Function, a []Val) Val {
			return e.sprintfVal(a[0], a[1])
		},
		"fmt.Sprint": func(e *Engine, f *ssa.Function, a []Val) Val {
			return e.sprintVal(a[0], false)
		},
		"fmt.Sprintln": func(e *Engine, f *ssa.Function, a []Val) Val {
			return concat(e.sprintVal(a[0], true), Str("\n"))
		},
		"fmt.Print": func(e *Engine, f *ssa.Function, a []Val) Val {
			e.out = append(e.out, outEvent{kind: "print", text: e.sprintVal(a[0], false)})
			return Tu{isc(0), If{}}
		},
		"fmt.Println": func(e *Engine, f *ssa.Function, a []Val) Val {
			e.out = append(e.out, outEvent{kind: "println", text: concat(e.sprintVal(a[0], true), Str("\n"))})
			return Tu{isc(0), If{}}
		},
		"fmt.Fprintf": func(e *Engine, f *ssa.Function, a []Val) Val {
			e.out = append(e.out, outEvent{kind: "print", format: "fprintf", text: e.sprintfVal(a[1], a[2])})
			return Tu{isc(0), If{}}
		},
		"fmt.Fprint": func(e *Engine, f *ssa.Function, a []Val) Val {
			e.out = append(e.out, outEvent{kind: "print", text: e.sprintVal(a[1], false)})
			return Tu{isc(0), If{}}
		},
		"fmt.Printf": func(e *Engine, f *ssa.Function, a []Val) Val {
			e.out = append(e.out, outEvent{kind: "printf", format: strArg(a[0]), text: e.sprintfVal(a[0], a[1])})
			return Tu{isc(0), If{}}
		},
		"(*github.com/paulsonkoly/calc/combinator.Error).Error": nil,
		"strings.Contains": func(e *Engine, f *ssa.Function, a []Val) Val {
			return e.strContains(a[0], a[1])
		},
		"strings.Count": func(e *Engine, f *ssa.Function, a []Val) Val {
			return e.strCount(a[0], a[1])
		},
		"strings.Index": func(e *Engine, f *ssa.Function, a []Val) Val {
			return e.strIndexOf(a[0], a[1], false)
		},
		"strings.LastIndex": func(e *Engine, f *ssa.Function, a []Val) Val {
			return e.strIndexOf(a[0], a[1], true)
		},
		"strings.IndexByte": func(e *Engine, f *ssa.Function, a []Val) Val {
			return e.strIndexOf(a[0], SStr{a[1].(Sc)}, false)
		},
		// assembly in the real build: first position of a byte in a byte slice / string
		"internal/bytealg.IndexByte": func(e *Engine, f *ssa.Function, a []Val) Val {
			cells := a[0].(Sl).a
			b := make([]Sc, len(cells))
			for i, c := range cells {
				b[i] = c.(Sc)
			}
			return e.strIndexOf(mkStr(b), SStr{a[1].(Sc)}, false)
		},
		"internal/bytealg.IndexByteString": func(e *Engine, f *ssa.Function, a []Val) Val {
			return e.strIndexOf(a[0], SStr{a[1].(Sc)}, false)
		},
		"strings.ReplaceAll": func(e *Engine, f *ssa.Function, a []Val) Val {
			return e.strReplaceAll(a[0], a[1], a[2])
		},
		"strings.Replace": func(e *Engine, f *ssa.Function, a []Val) Val {
			n := e.argInt(a[3], "Replace n")
			if ss, ok := a[0].(Str); ok {
				if os, ok := a[1].(Str); ok {
					if ns, ok := a[2].(Str); ok {
						return Str(strings.Replace(string(ss), string(os), string(ns), n))
					}
				}
			}
			if n < 0 {
				return e.strReplaceAll(a[0], a[1], a[2])
			}
			hay, nd, rp := bytesOf(a[0]), bytesOf(a[1]), bytesOf(a[2])
			if len(nd) == 0 {
				e.unsupported("Replace with empty pattern")
			}
			var out []Sc
			for i := 0; i < len(hay); {
				if n > 0 && i+len(nd) <= len(hay) && e.decide(e.matchAt(hay, i, nd)) {
					out = append(out, rp...)
					i += len(nd)
					n--
					continue
				}
				out = append(out, hay[i])
				i++
			}
			return mkStr(out)
		},
		"strings.Repeat": func(e *Engine, f *ssa.Function, a []Val) Val {
			n := e.argInt(a[1], "Repeat count")
			if n < 0 {
				panic(&goPanic{msg: "strings: negative Repeat count"})
			}
			if n > 1<<20 {
				e.unsupported("huge strings.Repeat")
			}
			var out Val = Str("")
			for i := 0; i < n; i++ {
				out = concat(out, a[0])
			}
			return out
		},
		"strconv.Itoa": func(e *Engine, f *ssa.Function, a []Val) Val {
			s := a[0].(Sc)
			if s.t == nil {
				return Str(strconv.FormatInt(sextW(s.w, s.c), 10))
			}
			return SAtom{fn: "itoa", arg: s.t}
		},
		"strconv.Atoi": func(e *Engine, f *ssa.Function, a []Val) Val {
			// the decimal rendering of a symbolic int parses back to that int (strconv is trusted);
			// every other text goes through the real Atoi
			if at, ok := a[0].(SAtom); ok && at.fn == "itoa" {
				return Tu{Sc{w: 64, t: at.arg}, If{}}
			}
			if at, ok := a[0].(SAtom); ok && at.fn == "ftoa" {
				// %v of a float64 (shortest 'g'): the text is a plain integer literal exactly when the
				// value is integral and below 1e21 in magnitude with fewer than 7 digits before the
				// exponent form sets in, i.e. |x| < 1e6 (strconv %g with shortest precision switches to
				// the exponent form at 1e6); then Atoi yields that integer. Stated model of strconv.
				x := Sc{w: 64, t: at.arg}
				f64, i64 := tinfo{w: 64, signed: true, float: true}, tinfo{w: 64, signed: true}
				asInt := e.convert(types.Typ[types.Float64], types.Typ[types.Int64], f64, i64, x).(Sc)
				back := e.convert(types.Typ[types.Int64], types.Typ[types.Float64], i64, f64, asInt).(Sc)
				lim := Sc{w: 64, c: math.Float64bits(1e6)}
				nlim := Sc{w: 64, c: math.Float64bits(-1e6)}
				integral := e.andSc(e.floatOp(token.EQL, back, x), e.andSc(e.floatOp(token.LSS, x, lim), e.floatOp(token.GTR, x, nlim)))
				if e.decide(integral) {
					return Tu{asInt, If{}}
				}
				return Tu{isc(0), If{t: sentinelType, v: Str("strconv.Atoi: parsing a float rendering: invalid syntax")}}
			}
			if at, ok := a[0].(SAtom); ok && strings.HasPrefix(at.fn, "ffmt:") {
				// a float formatted with an explicit precision: not an integer literal in general
				return Tu{isc(0), If{t: sentinelType, v: Str("strconv.Atoi: parsing a float rendering: invalid syntax")}}
			}
			if _, ok := a[0].(SAtom); ok {
				e.unsupported("strconv.Atoi of a formatted symbolic non-integer")
			}
			if _, ok := a[0].(SCat); ok {
				e.unsupported("strconv.Atoi of a text containing formatted symbolic numbers")
			}
			return e.callBody(f, a, nil)
		},
		"strconv.FormatBool": func(e *Engine, f *ssa.Function, a []Val) Val {
			s := a[0].(Sc)
			if s.t == nil {
				return Str(strconv.FormatBool(s.c != 0))
			}
			if e.decide(s) {
				return Str("true")
			}
			return Str("false")
		},
		"math.Float64bits":     func(e *Engine, f *ssa.Function, a []Val) Val { return a[0] },
		"math.Float64frombits": func(e *Engine, f *ssa.Function, a []Val) Val { return a[0] },
		"math.Floor": func(e *Engine, f *ssa.Function, a []Val) Val {
			return mathUnary(e, a[0], math.Floor)
		},
		"math.Ceil": func(e *Engine, f *ssa.Function, a []Val) Val {
			return mathUnary(e, a[0], math.Ceil)
		},
		"math.IsNaN": func(e *Engine, f *ssa.Function, a []Val) Val {
			s := a[0].(Sc)
			if s.t == nil {
				x := math.Float64frombits(s.c)
				return bsc(x != x)
			}
			return e.symSc(e.tt.App("fp.isNaN", 0, e.tt.ToFP(s.t)))
		},
		"reflect.DeepEqual": func(e *Engine, f *ssa.Function, a []Val) Val {
			return e.deepEqual(a[0], a[1])
		},
		"errors.Is": func(e *Engine, f *ssa.Function, a []Val) Val {
			return e.eqVal(types.Universe.Lookup("error").Type(), a[0], a[1])
		},
		"strconv.ParseFloat": func(e *Engine, f *ssa.Function, a []Val) Val {
			if at, isAtom := a[0].(SAtom); isAtom && at.fn == "ftoa" {
				// the shortest rendering of a float64 parses back to exactly that float (strconv is
				// trusted, as for Itoa/Atoi)
				return Tu{Sc{w: 64, t: at.arg}, If{}}
			}
			if at, isAtom := a[0].(SAtom); isAtom && strings.HasPrefix(at.fn, "ffmt:") {
				// formatted with an explicit precision: parses to some float, not known to be the same
				return Tu{e.fresh("parsedfloat", 64), If{}}
			}
			s, ok := a[0].(Str)
			if !ok {
				// symbolic text: only plain decimal literals (digits with at most one dot, a digit first,
				// fewer than 300 characters) are modelled; their value is an opaque function of the text
				bs := bytesOf(a[0])
				if len(bs) == 0 || len(bs) >= 300 {
					e.unsupported("strconv.ParseFloat on symbolic text of this length")
				}
				shape := bsc(true)
				dots := 0
				for i, b := range bs {
					isDigit := e.andSc(e.intOp(token.GEQ, tinfo{w: 8}, tinfo{w: 8}, b, u8('0')), e.intOp(token.LEQ, tinfo{w: 8}, tinfo{w: 8}, b, u8('9')))
					if i == 0 {
						shape = e.andSc(shape, isDigit)
						continue
					}
					if e.decide(e.byteEq(b, u8('.'))) {
						dots++
						continue
					}
					shape = e.andSc(shape, isDigit)
				}
				if dots > 1 || !e.decide(shape) {
					e.unsupported("strconv.ParseFloat on symbolic text that is not a plain decimal literal")
				}
				return Tu{e.fresh("parsedfloat", 64), If{}}
			}
			v, err := strconv.ParseFloat(string(s), e.argInt(a[1], "bitSize"))
			if err != nil {
				return Tu{Sc{w: 64, c: math.Float64bits(v)}, If{t: sentinelType, v: Str("strconv.ParseFloat: " + err.Error())}}
			}
			return Tu{Sc{w: 64, c: math.Float64bits(v)}, If{}}
		},
		"strconv.cloneString":        func(e *Engine, f *ssa.Function, a []Val) Val { return a[0] },
		"internal/stringslite.Clone": func(e *Engine, f *ssa.Function, a []Val) Val { return a[0] },
		"strings.Clone":              func(e *Engine, f *ssa.Function, a []Val) Val { return a[0] },
		"internal/bytealg.MakeNoZero": func(e *Engine, f *ssa.Function, a []Val) Val {
			n := e.argInt(a[0], "MakeNoZero")
			b := make([]Val, n)
			for i := range b {
				b[i] = u8(0)
			}
			return Sl{a: b}
		},
		"internal/abi.NoEscape":        func(e *Engine, f *ssa.Function, a []Val) Val { return a[0] },
		"(*strings.Builder).copyCheck": func(e *Engine, f *ssa.Function, a []Val) Val { return nil },
		"flag.NArg":                    func(e *Engine, f *ssa.Function, a []Val) Val { return isc(0) },
		"flag.Parse":                   func(e *Engine, f *ssa.Function, a []Val) Val { return nil },
		"flag.Bool": func(e *Engine, f *ssa.Function, a []Val) Val {
			var z Val = bsc(false)
			return &z
		},
		"flag.String": func(e *Engine, f *ssa.Function, a []Val) Val {
			var z Val = a[1]
			return &z
		},
		"github.com/paulsonkoly/calc/types/node.Graphviz": func(e *Engine, f *ssa.Function, a []Val) Val { return nil },
		// files created by vrt.TempFile: os.Open, (*os.File).Read in solver-independent full reads, Close
		"os.Open": func(e *Engine, f *ssa.Function, a []Val) Val {
			name, ok := a[0].(Str)
			data, found := e.files[string(name)]
			if !ok || !found {
				e.unsupported("os.Open of a file that was not created by vrt.TempFile")
			}
			var obj Val = &fileModel{data: data}
			return Tu{&obj, If{}}
		},
		"(*os.File).Read": func(e *Engine, f *ssa.Function, a []Val) Val {
			fm := fileOf(e, a[0])
			dst := a[1].(Sl).a
			if fm.pos >= len(fm.data) {
				if len(dst) == 0 {
					return Tu{isc(0), If{}}
				}
				return Tu{isc(0), If{t: sentinelType, v: Str("io.EOF")}}
			}
			n := copySc(dst, fm.data[fm.pos:])
			fm.pos += n
			return Tu{isc(int64(n)), If{}}
		},
		"(*os.File).Close": func(e *Engine, f *ssa.Function, a []Val) Val {
			if p, ok := a[0].(*Val); ok && p != nil {
				if _, ok := (*p).(*fileModel); ok {
					return If{}
				}
			}
			return notHandled
		},
		// a bufio.Reader over os.Stdin is modelled (stream delivered in solver-chosen chunks); over
		// any other reader the real bufio code is interpreted
		"bufio.NewReader": func(e *Engine, f *ssa.Function, a []Val) Val {
			if !isStdin(a[0]) {
				return notHandled
			}
			var obj Val = &bufReader{}
			return &obj
		},
		"(*bufio.Reader).ReadString": func(e *Engine, f *ssa.Function, a []Val) Val {
			if p, ok := a[0].(*Val); ok && p != nil {
				if _, ok := (*p).(*bufReader); ok {
					return e.readString(a[0], a[1].(Sc))
				}
			}
			return notHandled
		},
	}
	delete(intrinsics, "(*github.com/paulsonkoly/calc/combinator.Error).Error")
}

func mathUnary(e *Engine, v Val, fn func(float64) float64) Val {
	s := v.(Sc)
	if s.t != nil {
		e.unsupported("math function on symbolic float")
	}
	return Sc{w: 64, c: math.Float64bits(fn(math.Float64frombits(s.c)))}
}

// ---------- file model ----------

type fileModel struct {
	data []Sc
	pos  int
}

func fileOf(e *Engine, v Val) *fileModel {
	if p, ok := v.(*Val); ok && p != nil {
		if fm, ok := (*p).(*fileModel); ok {
			return fm
		}
	}
	e.unsupported("file operation on a file outside the model")
	return nil
}

func copySc(dst []Val, src []Sc) int {
	n := 0
	for n < len(dst) && n < len(src) {
		dst[n] = src[n]
		n++
	}
	return n
}

// ---------- stdin model ----------

type stdinModel struct {
	data    []Sc
	pos     int
	chunked bool
}

// bufReader models a bufio.Reader over os.Stdin: it owns a buffer filled by Read calls on the
// shared stdin model; each fill takes an arbitrary (solver-chosen) non-empty chunk when chunked.
type bufReader struct {
	buf []Sc
}

func (e *Engine) readString(r Val, delim Sc) Val {
	p := r.(*Val)
	br, ok := (*p).(*bufReader)
	if !ok {
		e.unsupported("ReadString on unknown reader")
	}
	if e.stdin == nil {
		e.stdin = &stdinModel{}
	}
	eof := If{t: sentinelType, v: Str("io.EOF")}
	for {
		// look for the delimiter in what is buffered
		for i := 0; i < len(br.buf); i++ {
			isD := e.intOp(token.EQL, tinfo{w: 8}, tinfo{w: 8}, br.buf[i], delim)
			if e.decide(isD) {
				line := mkStr(append([]Sc{}, br.buf[:i+1]...))
				br.buf = br.buf[i+1:]
				return Tu{line, If{}}
			}
		}
		// fill
		remaining := len(e.stdin.data) - e.stdin.pos
		if remaining == 0 {
			line := mkStr(append([]Sc{}, br.buf...))
			br.buf = nil
			return Tu{line, eof}
		}
		n := remaining
		if e.stdin.chunked && remaining > 1 {
			c := e.nondetScalar("stdin.chunk", 64)
			e.assume(e.symSc(e.tt.And(e.tt.App("bvuge", 0, c.t, e.tt.Const(64, 1)), e.tt.App("bvule", 0, c.t, e.tt.Const(64, uint64(remaining))))))
			n = e.concretize(c, "stdin chunk")
		}
		br.buf = append(br.buf, e.stdin.data[e.stdin.pos:e.stdin.pos+n]...)
		e.stdin.pos += n
	}
}

// ---------- strings on symbolic bytes ----------

func (e *Engine) byteEq(a, b Sc) Sc {
	return e.intOp(token.EQL, tinfo{w: 8}, tinfo{w: 8}, a, b)
}

func (e *Engine) matchAt(hay []Sc, i int, nd []Sc) Sc {
	r := bsc(true)
	for k := range nd {
		r = e.andSc(r, e.byteEq(hay[i+k], nd[k]))
		if r.t == nil && r.c == 0 {
			return r
		}
	}
	return r
}

func (e *Engine) strContains(h, n Val) Val {
	if hs, ok := h.(Str); ok {
		if ns, ok := n.(Str); ok {
			return bsc(strings.Contains(string(hs), string(ns)))
		}
	}
	hay, nd := bytesOf(h), bytesOf(n)
	r := bsc(false)
	for i := 0; i+len(nd) <= len(hay); i++ {
		r = e.orSc(r, e.matchAt(hay, i, nd))
	}
	if len(nd) == 0 {
		return bsc(true)
	}
	return r
}

func selfOverlap(nd []Sc) bool {
	// a concrete needle can overlap itself iff it has a proper border
	for _, b := range nd {
		if b.t != nil {
			return true
		}
	}
	for k := 1; k < len(nd); k++ {
		ok := true
		for i := 0; i+k < len(nd); i++ {
			if nd[i].c != nd[i+k].c {
				ok = false
				break
			}
		}
		if ok {
			return true
		}
	}
	return false
}

func (e *Engine) strCount(h, n Val) Val {
	if hs, ok := h.(Str); ok {
		if ns, ok := n.(Str); ok {
			return isc(int64(strings.Count(string(hs), string(ns))))
		}
	}
	hay, nd := bytesOf(h), bytesOf(n)
	if len(nd) == 0 {
		e.unsupported("strings.Count with empty needle on symbolic text")
	}
	if selfOverlap(nd) && len(nd) > 1 {
		e.unsupported("strings.Count with self-overlapping needle")
	}
	sum := e.tt.Const(64, 0)
	for i := 0; i+len(nd) <= len(hay); i++ {
		m := e.matchAt(hay, i, nd)
		sum = e.tt.App("bvadd", 64, sum, e.tt.Ite(e.term(m), e.tt.Const(64, 1), e.tt.Const(64, 0)))
	}
	if sum.isConst() {
		return Sc{w: 64, c: sum.c}
	}
	// fold constants
	return e.foldSum(sum)
}

func (e *Engine) foldSum(t *Term) Sc {
	if t.isConst() {
		return Sc{w: t.w, c: t.c}
	}
	return Sc{w: t.w, t: t}
}

func (e *Engine) strIndexOf(h, n Val, last bool) Val {
	if hs, ok := h.(Str); ok {
		if ns, ok := n.(Str); ok {
			if last {
				return isc(int64(strings.LastIndex(string(hs), string(ns))))
			}
			return isc(int64(strings.Index(string(hs), string(ns))))
		}
	}
	hay, nd := bytesOf(h), bytesOf(n)
	cnt := len(hay) - len(nd) + 1
	if cnt <= 0 {
		if len(nd) == 0 {
			return isc(0)
		}
		return isc(-1)
	}
	for k := 0; k < cnt; k++ {
		i := k
		if last {
			i = cnt - 1 - k
		}
		if e.decide(e.matchAt(hay, i, nd)) {
			return isc(int64(i))
		}
	}
	return isc(-1)
}

func (e *Engine) strReplaceAll(s, old, nw Val) Val {
	if ss, ok := s.(Str); ok {
		if os, ok := old.(Str); ok {
			if ns, ok := nw.(Str); ok {
				return Str(strings.ReplaceAll(string(ss), string(os), string(ns)))
			}
		}
	}
	hay, nd, rp := bytesOf(s), bytesOf(old), bytesOf(nw)
	if len(nd) == 0 {
		e.unsupported("ReplaceAll with empty pattern")
	}
	var out []Sc
	for i := 0; i < len(hay); {
		if i+len(nd) <= len(hay) && e.decide(e.matchAt(hay, i, nd)) {
			out = append(out, rp...)
			i += len(nd)
			continue
		}
		out = append(out, hay[i])
		i++
	}
	return mkStr(out)
}

// ---------- formatting ----------

func (e *Engine) snapshotArgs(v Val) []Val {
	sl, _ := v.(Sl)
	out := make([]Val, len(sl.a))
	for i := range sl.a {
		out[i] = e.snapshot(sl.a[i])
	}
	return out
}

// snapshot deep-copies a value for later comparison (slices and pointed-to strings included).
func (e *Engine) snapshot(v Val) Val {
	switch x := v.(type) {
	case If:
		return If{t: x.t, v: e.snapshot(x.v)}
	case St:
		n := make(St, len(x))
		for i := range x {
			n[i] = e.snapshot(x[i])
		}
		return n
	case Sl:
		n := make([]Val, len(x.a))
		for i := range x.a {
			n[i] = e.snapshot(x.a[i])
		}
		return Sl{a: n}
	case *Val:
		if x == nil {
			return x
		}
		c := e.snapshot(*x)
		return &c
	}
	return v
}

func (e *Engine) sprintf(format Val, args Val) string {
	v := e.sprintfVal(format, args)
	if s, ok := v.(Str); ok {
		return string(s)
	}
	return "<symbolic text>"
}

func (e *Engine) sprint(args Val, spaces bool) string {
	v := e.sprintVal(args, spaces)
	if s, ok := v.(Str); ok {
		return string(s)
	}
	return "<symbolic text>"
}

func (e *Engine) sprintVal(args Val, spaces bool) Val {
	sl, _ := args.(Sl)
	var out Val = Str("")
	for i, a := range sl.a {
		if i > 0 && spaces {
			out = concat(out, Str(" "))
		}
		out = concat(out, e.formatArg(a, 'v'))
	}
	return out
}

func (e *Engine) sprintfVal(format Val, args Val) Val {
	fs, ok := format.(Str)
	if !ok {
		return e.sprintfSymbolic(format, args)
	}
	sl, _ := args.(Sl)
	var out Val = Str("")
	ai := 0
	f := string(fs)
	for i := 0; i < len(f); i++ {
		if f[i] != '%' {
			out = concat(out, Str(f[i:i+1]))
			continue
		}
		j := i + 1
		for j < len(f) && strings.IndexByte("#0123456789.+- ", f[j]) >= 0 {
			j++
		}
		if j >= len(f) {
			break
		}
		verb := f[j]
		flags := f[i+1 : j]
		i = j
		if verb == '%' {
			out = concat(out, Str("%"))
			continue
		}
		if ai >= len(sl.a) {
			out = concat(out, Str("%!"+string(verb)+"(MISSING)"))
			continue
		}
		arg := sl.a[ai]
		ai++
		if sc, isSc := argScalar(arg); isSc && sc.t != nil && flags != "" && strings.IndexByte("efgEFG", verb) >= 0 {
			// a symbolic float with an explicit width/precision: an opaque rendering of its own kind
			out = concat(out, SAtom{fn: "ffmt:" + flags + string(verb), arg: sc.t})
			continue
		}
		if i, isIf := arg.(If); isIf && flags != "" {
			// concrete operand: the real fmt does the width/precision formatting
			spec := "%" + flags + string(verb)
			switch cv := i.v.(type) {
			case Str:
				out = concat(out, Str(fmt.Sprintf(spec, string(cv))))
				continue
			case Sc:
				if cv.t == nil && i.t != nil {
					ti := scalarInfo(i.t)
					switch {
					case ti.float && ti.w == 64:
						out = concat(out, Str(fmt.Sprintf(spec, math.Float64frombits(cv.c))))
						continue
					case ti.w > 0 && !ti.float && ti.signed:
						out = concat(out, Str(fmt.Sprintf(spec, sextW(cv.w, cv.c))))
						continue
					case ti.w > 0 && !ti.float:
						out = concat(out, Str(fmt.Sprintf(spec, cv.c)))
						continue
					}
				}
			}
		}
		if flags != "" {
			// width/flag formatting is not reproduced: value text is carried through as an opaque piece
			out = concat(out, Str("‹"))
			out = concat(out, e.formatArg(arg, rune(verb)))
			out = concat(out, Str("›"))
			continue
		}
		out = concat(out, e.formatArg(arg, rune(verb)))
	}
	return out
}

// argScalar unwraps an interface holding a scalar.
func argScalar(a Val) (Sc, bool) {
	if i, ok := a.(If); ok {
		sc, ok := i.v.(Sc)
		return sc, ok
	}
	sc, ok := a.(Sc)
	return sc, ok
}

func (e *Engine) formatArg(a Val, verb rune) Val {
	i, ok := a.(If)
	if !ok {
		return Str(describe(a))
	}
	if i.t == nil {
		return Str("<nil>")
	}
	// error / Stringer
	if verb != 'd' && verb != 'c' && verb != 'p' && verb != 'X' && verb != 'x' {
		for _, mn := range []string{"Error", "String"} {
			if types.Identical(i.t, sentinelType) {
				return i.v
			}
			ms := e.prog.MethodSets.MethodSet(i.t)
			if sel := ms.Lookup(nil, mn); sel != nil {
				if sig, ok := sel.Type().(*types.Signature); ok && sig.Params().Len() == 0 && sig.Results().Len() == 1 {
					fn := e.prog.MethodValue(sel)
					if fn != nil {
						r := e.call(fn, []Val{cp(i.v)}, nil)
						if isString(r) {
							return r
						}
					}
				}
			}
		}
	}
	switch x := i.v.(type) {
	case Str, SStr, SAtom, SCat:
		return x
	case Sc:
		ti := scalarInfo(i.t)
		if verb == 'c' {
			return e.runeToString(x, ti)
		}
		if x.t != nil {
			if ti.float {
				return SAtom{fn: "ftoa", arg: x.t}
			}
			if ti.w == 0 {
				if e.decide(x) {
					return Str("true")
				}
				return Str("false")
			}
			if ti.signed {
				return SAtom{fn: "itoa", arg: e.term(e.convert(i.t, types.Typ[types.Int64], ti, tinfo{w: 64, signed: true}, x).(Sc))}
			}
			return SAtom{fn: "utoa", arg: e.term(e.convert(i.t, types.Typ[types.Uint64], ti, tinfo{w: 64}, x).(Sc))}
		}
		switch {
		case ti.w == 0:
			return Str(strconv.FormatBool(x.c != 0))
		case ti.float:
			return Str(fmt.Sprint(math.Float64frombits(x.c)))
		case ti.signed:
			return Str(strconv.FormatInt(sextW(x.w, x.c), 10))
		default:
			return Str(strconv.FormatUint(maskW(x.w, x.c), 10))
		}
	case *Val:
		return Str("0xPTR")
	}
	return Str("<" + i.t.String() + ">")
}

func (e *Engine) vrtOutput() Val {
	// not exposed as Go data; harnesses use dedicated comparison intrinsics instead
	e.unsupported("vrt.Output is not available")
	return nil
}

// deepEqual implements reflect.DeepEqual on the interpreter's value representation.
func (e *Engine) deepEqual(x, y Val) Sc {
	switch a := x.(type) {
	case If:
		b, ok := y.(If)
		if !ok {
			return bsc(false)
		}
		if a.t == nil || b.t == nil {
			return bsc(a.t == nil && b.t == nil)
		}
		if !types.Identical(a.t, b.t) {
			return bsc(false)
		}
		return e.deepEqualT(a.t, a.v, b.v)
	}
	e.unsupported("reflect.DeepEqual on %T", x)
	return Sc{}
}

func (e *Engine) deepEqualT(t types.Type, x, y Val) Sc {
	switch u := t.Underlying().(type) {
	case *types.Struct:
		a, b := x.(St), y.(St)
		r := bsc(true)
		for i := range a {
			r = e.andSc(r, e.deepEqualT(u.Field(i).Type(), a[i], b[i]))
			if r.t == nil && r.c == 0 {
				return r
			}
		}
		return r
	case *types.Array:
		a, b := x.(St), y.(St)
		r := bsc(true)
		for i := range a {
			r = e.andSc(r, e.deepEqualT(u.Elem(), a[i], b[i]))
		}
		return r
	case *types.Slice:
		a, _ := x.(Sl)
		b, _ := y.(Sl)
		if (a.a == nil) != (b.a == nil) || len(a.a) != len(b.a) {
			return bsc(false)
		}
		r := bsc(true)
		for i := range a.a {
			r = e.andSc(r, e.deepEqualT(u.Elem(), a.a[i], b.a[i]))
			if r.t == nil && r.c == 0 {
				return r
			}
		}
		return r
	case *types.Interface:
		return e.deepEqual(x, y)
	case *types.Pointer:
		xp, _ := x.(*Val)
		yp, _ := y.(*Val)
		if xp == yp {
			return bsc(true)
		}
		if xp == nil || yp == nil {
			return bsc(false)
		}
		return e.deepEqualT(u.Elem(), *xp, *yp)
	case *types.Map, *types.Signature, *types.Chan:
		e.unsupported("reflect.DeepEqual on %s", t)
	}
	return e.eqVal(t, x, y)
}

// sprintfSymbolic handles a format string with symbolic bytes: each byte is decided to be '%' or
// not; a verb after a '%' is only followed to the extent needed to tell that the output differs
// from the plain text (trailing % -> %!(NOVERB), %% -> %).
func (e *Engine) sprintfSymbolic(format Val, args Val) Val {
	bs := bytesOf(format)
	var out Val = Str("")
	for i := 0; i < len(bs); i++ {
		isPct := e.byteEq(bs[i], u8('%'))
		if !e.decide(isPct) {
			out = concat(out, mkStr([]Sc{bs[i]}))
			continue
		}
		if i == len(bs)-1 {
			out = concat(out, Str("%!(NOVERB)"))
			continue
		}
		if e.decide(e.byteEq(bs[i+1], u8('%'))) {
			out = concat(out, Str("%"))
			i++
			continue
		}
		e.unsupported("format verb in a symbolic format string")
	}
	return out
}
