// append with the capacity growth policy of the Go 1.23 runtime (runtime.growslice),
// so that aliasing after append matches the native build.
package main

import (
	"go/types"
)

var classToSize = []int{0, 8, 16, 24, 32, 48, 64, 80, 96, 112, 128, 144, 160, 176, 192, 208, 224, 240, 256, 288, 320, 352, 384, 416, 448, 480, 512, 576, 640, 704, 768, 896, 1024, 1152, 1280, 1408, 1536, 1792, 2048, 2304, 2688, 3072, 3200, 3456, 4096, 4864, 5376, 6144, 6528, 6784, 6912, 8192, 9472, 9728, 10240, 10880, 12288, 13568, 14336, 16384, 18432, 19072, 20480, 21760, 24576, 27264, 28672, 32768}

var gcSizes = types.SizesFor("gc", "amd64")

func hasPointers(t types.Type) bool {
	switch u := t.Underlying().(type) {
	case *types.Basic:
		return u.Kind() == types.String || u.Kind() == types.UnsafePointer
	case *types.Struct:
		for i := 0; i < u.NumFields(); i++ {
			if hasPointers(u.Field(i).Type()) {
				return true
			}
		}
		return false
	case *types.Array:
		return u.Len() > 0 && hasPointers(u.Elem())
	}
	return true
}

func roundUpSize(size int, noscan bool) int {
	req := size
	if req <= 32768-8 {
		if !noscan && req > 512 {
			req += 8
		}
		for _, c := range classToSize {
			if c >= req {
				return c - (req - size)
			}
		}
	}
	req += 8192 - 1
	return req &^ (8192 - 1)
}

func nextSliceCap(newLen, oldCap int) int {
	newcap := oldCap
	doublecap := newcap + newcap
	if newLen > doublecap {
		return newLen
	}
	const threshold = 256
	if oldCap < threshold {
		return doublecap
	}
	for {
		newcap += (newcap + 3*threshold) >> 2
		if uint(newcap) >= uint(newLen) {
			break
		}
	}
	if newcap <= 0 {
		return newLen
	}
	return newcap
}

func growCap(newLen, oldCap int, elem types.Type) int {
	size := int(gcSizes.Sizeof(elem))
	if size == 0 {
		return newLen
	}
	newcap := nextSliceCap(newLen, oldCap)
	mem := roundUpSize(newcap*size, !hasPointers(elem))
	return mem / size
}

func (e *Engine) appendSl(st types.Type, s Val, more Val) Val {
	dst, _ := s.(Sl)
	var src []Val
	switch m := more.(type) {
	case Sl:
		src = m.a
	case Str, SStr:
		for _, b := range bytesOf(m) {
			src = append(src, b)
		}
	case nil:
	default:
		e.unsupported("append of %T", more)
	}
	if len(src) == 0 {
		return dst
	}
	el := st.Underlying().(*types.Slice).Elem()
	n := len(dst.a)
	newLen := n + len(src)
	// stage the source first: it may alias the destination's spare capacity
	tmp := make([]Val, len(src))
	for i := range src {
		tmp[i] = cp(src[i])
	}
	if newLen <= cap(dst.a) {
		a := dst.a[:newLen]
		for i := range tmp {
			assign(&a[n+i], tmp[i])
		}
		return Sl{a: a}
	}
	nc := growCap(newLen, cap(dst.a), el)
	a := make([]Val, newLen, nc)
	for i := 0; i < n; i++ {
		a[i] = cp(dst.a[i])
	}
	for i := range tmp {
		a[n+i] = tmp[i]
	}
	full := a[:nc]
	for i := newLen; i < nc; i++ {
		full[i] = e.zero(el)
	}
	return Sl{a: a}
}
