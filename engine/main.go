// gosym: bounded symbolic execution of go/ssa with SMT-decided branches and assertions.
package main

import (
	"bufio"
	"encoding/json"
	"flag"
	"fmt"
	"io"
	"os"
	"os/exec"
	"runtime"
	"sort"
	"strings"
	"time"

	"golang.org/x/tools/go/packages"
	"golang.org/x/tools/go/ssa"
	"golang.org/x/tools/go/ssa/ssautil"
)

type harnessSpec struct {
	Pkg  string // import path suffix, e.g. "types/value"
	Func string
}

type HarnessOut struct {
	Harness      string                   `json:"harness"`
	Paths        int                      `json:"paths"`
	Completed    int                      `json:"completed"`
	Assumed      int                      `json:"assume_dropped"`
	Infeasible   int                      `json:"infeasible"`
	Asserts      int                      `json:"asserts"`
	AssertsSym   int                      `json:"asserts_solver"`
	Queries      int                      `json:"queries"`
	Sat          int                      `json:"sat"`
	Unsat        int                      `json:"unsat"`
	Unknown      int                      `json:"unknown"`
	SolverErrors int                      `json:"solver_errors"`
	SolverS      float64                  `json:"solver_s"`
	WallS        float64                  `json:"wall_s"`
	Instrs       int64                    `json:"ssa_instrs"`
	Violations   []Violation              `json:"violations"`
	ViolCount    map[string]int           `json:"violation_counts"`
	Inconclusive map[string]int           `json:"inconclusive"`
	Covers       map[string]int           `json:"covers"`
	Funcs        []string                 `json:"functions_encoded"`
	Samples      []map[string]interface{} `json:"samples"`
	MapRanges    int                      `json:"map_ranges"`
	UnknownBr    int                      `json:"unknown_branches"`
	Truncated    bool                     `json:"truncated"`
	CrossChecked int                      `json:"cross_checked"`
	CrossDiff    int                      `json:"cross_diff"`
	CacheHits    int                      `json:"query_cache_hits"`
}

func main() {
	repo := flag.String("repo", "/repo", "repository root")
	overlayFile := flag.String("overlay", "", "overlay JSON ({\"Replace\":{virtual:real}})")
	pkgsFlag := flag.String("pkgs", "./...", "comma separated package patterns to load")
	harnessFlag := flag.String("harness", "", "comma separated pkgsuffix.Func")
	out := flag.String("out", "", "result JSON file")
	fuel := flag.Int("fuel", 2000000, "SSA instruction budget per path")
	maxDepth := flag.Int("maxdepth", 4000, "call depth bound")
	maxDec := flag.Int("maxdec", 4000, "decisions per path bound")
	workers := flag.Int("workers", runtime.NumCPU(), "parallel workers")
	solver := flag.String("solver", "z3new", "z3new | cvc5 | z3old")
	maxPaths := flag.Int("maxpaths", 0, "stop after this many paths (0 = unbounded); reported as truncated")
	maxViol := flag.Int("maxviol", 3, "violations recorded per label")
	stopViol := flag.Int("stopviol", 60, "stop exploring a harness after this many violating paths (0 = never)")
	timeout := flag.Duration("timeout", 0, "wall clock limit per harness (0 = none); reported as truncated")
	cross := flag.Int("cross", 0, "re-decide every k-th assertion query with cvc5 (0 = off)")
	tags := flag.String("tags", "verif", "build tags")
	paramsFlag := flag.String("params", "", "comma separated name=int harness parameters (vrt.Param)")
	withTests := flag.Bool("tests", false, "load test files too (harnesses in _test packages)")
	verbose := flag.Bool("v", false, "verbose")
	flag.Parse()

	t0 := time.Now()
	params := map[string]int{}
	for _, kv := range strings.Split(*paramsFlag, ",") {
		if i := strings.Index(kv, "="); i > 0 {
			var v int
			fmt.Sscanf(kv[i+1:], "%d", &v)
			params[kv[:i]] = v
		}
	}
	ov := map[string][]byte{}
	if *overlayFile != "" {
		var spec struct{ Replace map[string]string }
		b, err := os.ReadFile(*overlayFile)
		if err != nil {
			fatal(err)
		}
		if err := json.Unmarshal(b, &spec); err != nil {
			fatal(err)
		}
		for virt, real := range spec.Replace {
			c, err := os.ReadFile(real)
			if err != nil {
				fatal(err)
			}
			ov[virt] = c
		}
	}
	cfg := &packages.Config{Mode: packages.LoadAllSyntax, Dir: *repo, Overlay: ov, Tests: *withTests, BuildFlags: []string{"-tags=" + *tags},
		Env: append(os.Environ(), "GOFLAGS=-mod=mod", "GOPROXY=off", "GOSUMDB=off", "GOTOOLCHAIN=local")}
	pkgs, err := packages.Load(cfg, strings.Split(*pkgsFlag, ",")...)
	if err != nil {
		fatal(err)
	}
	if n := packages.PrintErrors(pkgs); n > 0 {
		fmt.Fprintln(os.Stderr, "BUILD-ERROR: the repository (with harness overlay) does not type-check")
		os.Exit(4)
	}
	prog, spkgs := ssautil.AllPackages(pkgs, ssa.InstantiateGenerics)
	prog.Build()
	loadS := time.Since(t0).Seconds()
	if *verbose {
		fmt.Fprintf(os.Stderr, "load+ssa %.2fs\n", loadS)
	}
	var outs []HarnessOut
	for _, hs := range strings.Split(*harnessFlag, ",") {
		if hs == "" {
			continue
		}
		dot := strings.LastIndex(hs, ".")
		psuf, fname := hs[:dot], hs[dot+1:]
		var fn *ssa.Function
		for _, p := range spkgs {
			if p != nil && strings.HasSuffix(p.Pkg.Path(), psuf) {
				if f := p.Func(fname); f != nil {
					fn = f
				}
			}
		}
		if fn == nil {
			fatal(fmt.Errorf("harness %s not found", hs))
		}
		opts := &Options{Fuel: *fuel, MaxDepth: *maxDepth, MaxDec: *maxDec, Workers: *workers, Solver: *solver, MaxPaths: *maxPaths, MaxViol: *maxViol, StopViol: *stopViol, Verbose: *verbose, CrossFrac: *cross, Params: params}
		if *timeout > 0 {
			opts.Deadline = time.Now().Add(*timeout)
		}
		res := runHarness(prog, fn, opts)
		if *cross > 0 && len(res.crossQ) > 0 {
			crossCheck(res)
		}
		ho := HarnessOut{Harness: hs, Paths: res.Paths, Completed: res.Completed, Assumed: res.Assumed, Infeasible: res.Infeasible,
			Asserts: res.Asserts, AssertsSym: res.AssertsSym, Queries: res.Queries, Sat: res.Sat, Unsat: res.Unsat, Unknown: res.Unknown,
			SolverErrors: res.SolverErrors, SolverS: res.SolverDur.Seconds(), WallS: res.Wall.Seconds(), Instrs: res.Instrs,
			Violations: res.Violations, ViolCount: res.ViolCount, Inconclusive: res.Inconclusive, Covers: res.Covers, Samples: res.Samples,
			MapRanges: res.MapRanges, UnknownBr: res.UnknownBr, Truncated: res.Truncated, CrossChecked: res.CrossChecked, CrossDiff: res.CrossDiff, CacheHits: res.CacheHits}
		for f := range res.Funcs {
			ho.Funcs = append(ho.Funcs, f)
		}
		sort.Strings(ho.Funcs)
		for i := range ho.Violations {
			ho.Violations[i].Harness = hs
		}
		outs = append(outs, ho)
		if *verbose {
			fmt.Fprintf(os.Stderr, "== %s paths=%d completed=%d assume-dropped=%d violations=%d inconclusive=%d asserts=%d queries=%d (sat %d unsat %d unknown %d) solver=%.2fs wall=%.2fs instrs=%d cachehits=%d\n",
				hs, res.Paths, res.Completed, res.Assumed, len(res.Violations), len(res.Inconclusive), res.Asserts, res.Queries, res.Sat, res.Unsat, res.Unknown, res.SolverDur.Seconds(), res.Wall.Seconds(), res.Instrs, res.CacheHits)
			for k, n := range res.ViolCount {
				fmt.Fprintf(os.Stderr, "   VIOL %s x%d\n", k, n)
			}
			for k, n := range res.Inconclusive {
				fmt.Fprintf(os.Stderr, "   INCONCLUSIVE %s x%d\n", k, n)
			}
		}
	}
	b, _ := json.MarshalIndent(map[string]interface{}{"load_s": loadS, "harnesses": outs}, "", " ")
	if *out != "" {
		if err := os.WriteFile(*out, b, 0o644); err != nil {
			fatal(err)
		}
	} else {
		os.Stdout.Write(b)
	}
}

func fatal(err error) {
	fmt.Fprintln(os.Stderr, "gosym:", err)
	os.Exit(3)
}

// crossCheck re-decides the collected assertion queries with cvc5 and counts disagreements.
func crossCheck(res *Result) {
	cmd := exec.Command("cvc5", "--incremental", "--lang", "smt2", "--tlimit-per=20000")
	in, _ := cmd.StdinPipe()
	outp, _ := cmd.StdoutPipe()
	if err := cmd.Start(); err != nil {
		return
	}
	rd := bufio.NewReader(outp)
	io.WriteString(in, "(set-logic ALL)\n")
	for _, q := range res.crossQ {
		io.WriteString(in, "(push 1)\n"+q.text+"(check-sat)\n(echo \"DONE\")\n(pop 1)\n")
		got := ""
		for {
			line, err := rd.ReadString('\n')
			if err != nil {
				break
			}
			line = strings.TrimSpace(line)
			if strings.Contains(line, "DONE") {
				break
			}
			if got == "" && line != "" {
				got = line
			}
		}
		res.CrossChecked++
		if (got == "sat" || got == "unsat") && (q.expect == "sat" || q.expect == "unsat") && got != q.expect {
			res.CrossDiff++
			fmt.Fprintf(os.Stderr, "CROSS-CHECK DISAGREEMENT: z3=%s cvc5=%s\n%s\n", q.expect, got, q.text)
		}
	}
	in.Close()
	cmd.Process.Kill()
	cmd.Wait()
}
