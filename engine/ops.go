// Scalar, string and comparison operators.
package main

import (
	"fmt"
	"go/token"
	"go/types"
	"math"
)

func (e *Engine) fresh(label string, w int) Sc {
	n := fmt.Sprintf("%s!%d!%d", label, w, e.freshN)
	e.freshN++
	return Sc{w: w, t: e.tt.Var(n, w)}
}

// define introduces a fresh variable constrained by a definitional constraint built from it.
func (e *Engine) define(label string, w int, mk func(v *Term) *Term) Sc {
	s := e.fresh(label, w)
	e.defs[int32(s.t.id)] = mk(s.t)
	return s
}

// defineAs returns the variable standing for the value of res (a Float64-sorted term); the same
// term always gets the same variable on a path, so syntactically identical computations are
// identical values without asking the solver to compare two multipliers.
func (e *Engine) defineAs(label string, res *Term) Sc {
	if s, ok := e.defCache[res]; ok {
		return s
	}
	s := e.define(label, 64, func(v *Term) *Term { return e.tt.Eq(e.tt.ToFP(v), res) })
	e.defCache[res] = s
	return s
}

func cmpOp(op token.Token, signed bool) string {
	switch op {
	case token.LSS:
		if signed {
			return "bvslt"
		}
		return "bvult"
	case token.LEQ:
		if signed {
			return "bvsle"
		}
		return "bvule"
	case token.GTR:
		if signed {
			return "bvsgt"
		}
		return "bvugt"
	case token.GEQ:
		if signed {
			return "bvsge"
		}
		return "bvuge"
	}
	return ""
}

func (e *Engine) boolOp(op token.Token, a, b Sc) Sc {
	if a.t == nil && b.t == nil {
		x, y := a.c != 0, b.c != 0
		switch op {
		case token.EQL:
			return bsc(x == y)
		case token.NEQ:
			return bsc(x != y)
		case token.AND, token.LAND:
			return bsc(x && y)
		case token.OR, token.LOR:
			return bsc(x || y)
		case token.XOR:
			return bsc(x != y)
		}
	}
	at, bt := e.term(a), e.term(b)
	switch op {
	case token.EQL:
		return e.symSc(e.tt.Eq(at, bt))
	case token.NEQ, token.XOR:
		return e.symSc(e.tt.Not(e.tt.Eq(at, bt)))
	case token.AND, token.LAND:
		return e.symSc(e.tt.And(at, bt))
	case token.OR, token.LOR:
		return e.symSc(e.tt.Or(at, bt))
	}
	panic(pathEnd{"unsupported", "bool op " + op.String()})
}

func (e *Engine) notSc(a Sc) Sc {
	if a.t == nil {
		return bsc(a.c == 0)
	}
	return e.symSc(e.tt.Not(a.t))
}

func (e *Engine) andSc(a, b Sc) Sc { return e.boolOp(token.AND, a, b) }
func (e *Engine) orSc(a, b Sc) Sc  { return e.boolOp(token.OR, a, b) }

// intOp implements integer binary operators with Go semantics on width ti.w.
func (e *Engine) intOp(op token.Token, ti tinfo, ti2 tinfo, a, b Sc) Sc {
	w := ti.w
	switch op {
	case token.QUO, token.REM:
		z := e.intOp(token.EQL, ti, ti, b, Sc{w: w})
		if e.decide(z) {
			panic(&goPanic{msg: "runtime error: integer divide by zero"})
		}
	}
	if op == token.SHL || op == token.SHR {
		return e.shiftOp(op, ti, ti2, a, b)
	}
	if a.t == nil && b.t == nil {
		ac, bc := a.c, b.c
		var r uint64
		switch op {
		case token.ADD:
			r = ac + bc
		case token.SUB:
			r = ac - bc
		case token.MUL:
			r = ac * bc
		case token.QUO:
			if ti.signed {
				x, y := sextW(w, ac), sextW(w, bc)
				if y == -1 {
					r = uint64(-x)
				} else {
					r = uint64(x / y)
				}
			} else {
				r = maskW(w, ac) / maskW(w, bc)
			}
		case token.REM:
			if ti.signed {
				x, y := sextW(w, ac), sextW(w, bc)
				if y == -1 {
					r = 0
				} else {
					r = uint64(x % y)
				}
			} else {
				r = maskW(w, ac) % maskW(w, bc)
			}
		case token.AND:
			r = ac & bc
		case token.OR:
			r = ac | bc
		case token.XOR:
			r = ac ^ bc
		case token.AND_NOT:
			r = ac &^ bc
		case token.EQL:
			return bsc(maskW(w, ac) == maskW(w, bc))
		case token.NEQ:
			return bsc(maskW(w, ac) != maskW(w, bc))
		case token.LSS, token.LEQ, token.GTR, token.GEQ:
			var lt, eq bool
			if ti.signed {
				lt, eq = sextW(w, ac) < sextW(w, bc), sextW(w, ac) == sextW(w, bc)
			} else {
				lt, eq = maskW(w, ac) < maskW(w, bc), maskW(w, ac) == maskW(w, bc)
			}
			switch op {
			case token.LSS:
				return bsc(lt)
			case token.LEQ:
				return bsc(lt || eq)
			case token.GTR:
				return bsc(!lt && !eq)
			default:
				return bsc(!lt)
			}
		default:
			panic(pathEnd{"unsupported", "int op " + op.String()})
		}
		return Sc{w: w, c: maskW(w, r)}
	}
	at, bt := e.term(a), e.term(b)
	bin := func(f string) Sc { return e.symSc(e.tt.App(f, w, at, bt)) }
	switch op {
	case token.ADD:
		if b.t == nil && b.c == 0 {
			return a
		}
		if a.t == nil && a.c == 0 {
			return b
		}
		return bin("bvadd")
	case token.SUB:
		if b.t == nil && b.c == 0 {
			return a
		}
		return bin("bvsub")
	case token.MUL:
		if b.t == nil && b.c == 1 {
			return a
		}
		if a.t == nil && a.c == 1 {
			return b
		}
		return bin("bvmul")
	case token.QUO:
		if ti.signed {
			return bin("bvsdiv")
		}
		return bin("bvudiv")
	case token.REM:
		if ti.signed {
			return bin("bvsrem")
		}
		return bin("bvurem")
	case token.AND:
		return bin("bvand")
	case token.OR:
		return bin("bvor")
	case token.XOR:
		return bin("bvxor")
	case token.AND_NOT:
		return e.symSc(e.tt.App("bvand", w, at, e.tt.App("bvnot", w, bt)))
	case token.EQL:
		return e.symSc(e.tt.Eq(at, bt))
	case token.NEQ:
		return e.symSc(e.tt.Not(e.tt.Eq(at, bt)))
	case token.LSS, token.LEQ, token.GTR, token.GEQ:
		return e.symSc(e.tt.App(cmpOp(op, ti.signed), 0, at, bt))
	}
	panic(pathEnd{"unsupported", "sym int op " + op.String()})
}

func (e *Engine) shiftOp(op token.Token, ti, ti2 tinfo, a, b Sc) Sc {
	w := ti.w
	// negative signed shift count panics
	if ti2.signed {
		neg := e.intOp(token.LSS, ti2, ti2, b, Sc{w: b.w})
		if e.decide(neg) {
			panic(&goPanic{msg: "runtime error: negative shift amount"})
		}
	}
	if a.t == nil && b.t == nil {
		bc := maskW(b.w, b.c)
		var r uint64
		if op == token.SHL {
			if bc >= uint64(w) {
				r = 0
			} else {
				r = a.c << bc
			}
		} else if ti.signed {
			if bc >= uint64(w) {
				bc = uint64(w - 1)
			}
			r = uint64(sextW(w, a.c) >> bc)
		} else if bc >= uint64(w) {
			r = 0
		} else {
			r = maskW(w, a.c) >> bc
		}
		return Sc{w: w, c: maskW(w, r)}
	}
	at, bt := e.term(a), e.term(b)
	// bring the count to width w; SMT shifts already yield 0 / sign-fill for counts >= w
	if b.w < w {
		bt = e.tt.ZeroExt(w-b.w, bt)
	} else if b.w > w {
		// count wider than operand: saturate
		big := e.tt.App("bvuge", 0, bt, e.tt.Const(b.w, uint64(w)))
		bt = e.tt.Ite(big, e.tt.Const(w, uint64(w)), e.tt.Extract(w-1, 0, bt))
	}
	f := "bvshl"
	if op == token.SHR {
		f = "bvlshr"
		if ti.signed {
			f = "bvashr"
		}
	}
	return e.symSc(e.tt.App(f, w, at, bt))
}

func (e *Engine) floatOp(op token.Token, a, b Sc) Sc {
	if a.w != 64 {
		panic(pathEnd{"unsupported", "float32 arithmetic"})
	}
	if a.t == nil && b.t == nil {
		x, y := math.Float64frombits(a.c), math.Float64frombits(b.c)
		switch op {
		case token.ADD:
			return Sc{w: 64, c: math.Float64bits(x + y)}
		case token.SUB:
			return Sc{w: 64, c: math.Float64bits(x - y)}
		case token.MUL:
			return Sc{w: 64, c: math.Float64bits(x * y)}
		case token.QUO:
			return Sc{w: 64, c: math.Float64bits(x / y)}
		case token.EQL:
			return bsc(x == y)
		case token.NEQ:
			return bsc(x != y)
		case token.LSS:
			return bsc(x < y)
		case token.LEQ:
			return bsc(x <= y)
		case token.GTR:
			return bsc(x > y)
		case token.GEQ:
			return bsc(x >= y)
		}
	}
	fa, fb := e.tt.ToFP(e.term(a)), e.tt.ToFP(e.term(b))
	switch op {
	case token.ADD, token.SUB, token.MUL, token.QUO:
		f := map[token.Token]string{token.ADD: "fp.add RNE", token.SUB: "fp.sub RNE", token.MUL: "fp.mul RNE", token.QUO: "fp.div RNE"}[op]
		res := e.tt.App(f, sortF64, fa, fb)
		return e.defineAs("fr", res)
	case token.EQL:
		return e.symSc(e.tt.App("fp.eq", 0, fa, fb))
	case token.NEQ:
		return e.symSc(e.tt.Not(e.tt.App("fp.eq", 0, fa, fb)))
	case token.LSS:
		return e.symSc(e.tt.App("fp.lt", 0, fa, fb))
	case token.LEQ:
		return e.symSc(e.tt.App("fp.leq", 0, fa, fb))
	case token.GTR:
		return e.symSc(e.tt.App("fp.gt", 0, fa, fb))
	case token.GEQ:
		return e.symSc(e.tt.App("fp.geq", 0, fa, fb))
	}
	panic(pathEnd{"unsupported", "float op " + op.String()})
}

// strCmp compares strings; only == and != are supported for symbolic content.
func (e *Engine) strEq(x, y Val) Sc {
	if xs, ok := x.(Str); ok {
		if ys, ok := y.(Str); ok {
			return bsc(xs == ys)
		}
	}
	_, xa := x.(SAtom)
	_, xc := x.(SCat)
	_, ya := y.(SAtom)
	_, yc := y.(SCat)
	if xa || xc || ya || yc {
		xp, yp := strParts(x), strParts(y)
		if len(xp) != len(yp) {
			panic(pathEnd{"unsupported", "comparison of formatted strings with different segmentation"})
		}
		r := bsc(true)
		for i := range xp {
			ax, isAx := xp[i].(SAtom)
			ay, isAy := yp[i].(SAtom)
			switch {
			case isAx && isAy:
				if ax.fn != ay.fn {
					panic(pathEnd{"unsupported", "comparison of differently formatted atoms"})
				}
				// formatting is injective on its argument (itoa; ftoa up to NaN payload)
				r = e.andSc(r, e.symSc(e.tt.Eq(ax.arg, ay.arg)))
			case !isAx && !isAy:
				r = e.andSc(r, e.strEq(xp[i], yp[i]))
			default:
				panic(pathEnd{"unsupported", "comparison of formatted atom with plain string"})
			}
		}
		return r
	}
	xb, yb := bytesOf(x), bytesOf(y)
	if len(xb) != len(yb) {
		return bsc(false)
	}
	r := bsc(true)
	for i := range xb {
		r = e.andSc(r, e.intOp(token.EQL, tinfo{w: 8}, tinfo{w: 8}, xb[i], yb[i]))
		if r.t == nil && r.c == 0 {
			return r
		}
	}
	return r
}

// eqVal implements Go's == on values of static type t.
func (e *Engine) eqVal(t types.Type, x, y Val) Sc {
	switch u := t.Underlying().(type) {
	case *types.Basic:
		if u.Info()&types.IsString != 0 {
			return e.strEq(x, y)
		}
		if u.Kind() == types.UnsafePointer {
			return e.ptrEq(x, y)
		}
		ti := scalarInfo(t)
		a, b := x.(Sc), y.(Sc)
		if ti.w == 0 {
			return e.boolOp(token.EQL, a, b)
		}
		if ti.float {
			return e.floatOp(token.EQL, a, b)
		}
		return e.intOp(token.EQL, ti, ti, a, b)
	case *types.Struct:
		a, b := x.(St), y.(St)
		r := bsc(true)
		for i := range a {
			r = e.andSc(r, e.eqVal(u.Field(i).Type(), a[i], b[i]))
			if r.t == nil && r.c == 0 {
				return r
			}
		}
		return r
	case *types.Array:
		a, b := x.(St), y.(St)
		r := bsc(true)
		for i := range a {
			r = e.andSc(r, e.eqVal(u.Elem(), a[i], b[i]))
		}
		return r
	case *types.Pointer:
		return e.ptrEq(x, y)
	case *types.Interface:
		a, b := x.(If), y.(If)
		if a.t == nil || b.t == nil {
			return bsc(a.t == nil && b.t == nil)
		}
		if !types.Identical(a.t, b.t) {
			return bsc(false)
		}
		if !types.Comparable(a.t) {
			panic(&goPanic{msg: "runtime error: comparing uncomparable type " + a.t.String()})
		}
		return e.eqVal(a.t, a.v, b.v)
	case *types.Signature:
		a, _ := x.(*Fn)
		b, _ := y.(*Fn)
		return bsc(a == nil && b == nil) // only comparison with nil is legal
	case *types.Slice:
		a, _ := x.(Sl)
		b, _ := y.(Sl)
		return bsc(a.a == nil && b.a == nil)
	case *types.Map:
		a, _ := x.(*MapV)
		b, _ := y.(*MapV)
		return bsc(a == nil && b == nil)
	case *types.Chan:
		return bsc(x == nil && y == nil)
	}
	panic(pathEnd{"unsupported", "== on " + t.String()})
}

func (e *Engine) ptrEq(x, y Val) Sc {
	xp, _ := x.(*Val)
	yp, _ := y.(*Val)
	return bsc(xp == yp)
}

// runeToString implements string(rune) with UTF-8 encoding; forks on the encoding length.
func (e *Engine) runeToString(s Sc, ti tinfo) Val {
	if s.t == nil {
		return Str(string(rune(int32(sextW(ti.w, s.c)))))
	}
	t := s.t
	if s.w < 32 {
		if ti.signed {
			t = e.tt.SignExt(32-s.w, t)
		} else {
			t = e.tt.ZeroExt(32-s.w, t)
		}
	} else if s.w > 32 {
		// values outside int32 range are invalid runes
		hi := e.tt.Extract(s.w-1, 31, t)
		ok := e.tt.Or(e.tt.Eq(hi, e.tt.Const(s.w-31, 0)))
		if !e.decide(e.symSc(ok)) {
			return Str("�")
		}
		t = e.tt.Extract(31, 0, t)
	}
	c := func(v uint64) *Term { return e.tt.Const(32, v) }
	ult := func(a *Term, v uint64) Sc { return e.symSc(e.tt.App("bvult", 0, a, c(v))) }
	ex := func(hi, lo int) *Term { return e.tt.Extract(hi, lo, t) }
	b8 := func(t *Term) Sc { return e.symSc(t) }
	or8 := func(k uint64, x *Term) *Term { return e.tt.App("bvor", 8, e.tt.Const(8, k), x) }
	if e.decide(ult(t, 0x80)) {
		return SStr{b8(ex(7, 0))}
	}
	if e.decide(ult(t, 0x800)) {
		return SStr{b8(or8(0xC0, e.tt.ZeroExt(3, ex(10, 6)))), b8(or8(0x80, e.tt.ZeroExt(2, ex(5, 0))))}
	}
	// surrogates and out of range -> U+FFFD
	sur := e.tt.And(e.tt.App("bvuge", 0, t, c(0xD800)), e.tt.App("bvule", 0, t, c(0xDFFF)))
	if e.decide(e.symSc(sur)) {
		return Str("�")
	}
	if e.decide(ult(t, 0x10000)) {
		return SStr{b8(or8(0xE0, e.tt.ZeroExt(4, ex(15, 12)))), b8(or8(0x80, e.tt.ZeroExt(2, ex(11, 6)))), b8(or8(0x80, e.tt.ZeroExt(2, ex(5, 0))))}
	}
	if e.decide(ult(t, 0x110000)) {
		return SStr{b8(or8(0xF0, e.tt.ZeroExt(5, ex(20, 18)))), b8(or8(0x80, e.tt.ZeroExt(2, ex(17, 12)))), b8(or8(0x80, e.tt.ZeroExt(2, ex(11, 6)))), b8(or8(0x80, e.tt.ZeroExt(2, ex(5, 0))))}
	}
	return Str("�")
}

func (e *Engine) convert(from, to types.Type, fi, ti tinfo, v Val) Val {
	switch x := v.(type) {
	case *Val:
		return v
	case Str, SStr, SAtom, SCat:
		if _, ok := to.Underlying().(*types.Slice); ok {
			el := to.Underlying().(*types.Slice).Elem()
			if ei := scalarInfo(el); ei.w == 8 {
				bs := bytesOf(v)
				a := make([]Val, len(bs))
				for i := range bs {
					a[i] = bs[i]
				}
				return Sl{a: a}
			}
			// []rune
			if s, ok := v.(Str); ok {
				rs := []rune(string(s))
				a := make([]Val, len(rs))
				for i, r := range rs {
					a[i] = Sc{w: 32, c: uint64(uint32(r))}
				}
				return Sl{a: a}
			}
			panic(pathEnd{"unsupported", "symbolic string to []rune"})
		}
		return v
	case Sl:
		if ti.str {
			el := from.Underlying().(*types.Slice).Elem()
			if ei := scalarInfo(el); ei.w == 8 {
				bs := make([]Sc, len(x.a))
				for i := range x.a {
					bs[i] = x.a[i].(Sc)
				}
				return mkStr(bs)
			}
			var out Val = Str("")
			for i := range x.a {
				out = concat(out, e.runeToString(x.a[i].(Sc), tinfo{w: 32, signed: true}))
			}
			return out
		}
		return v
	case nil:
		return v
	}
	s, ok := v.(Sc)
	if !ok {
		panic(pathEnd{"unsupported", fmt.Sprintf("convert %T to %s", v, to)})
	}
	if ti.str {
		return e.runeToString(s, fi)
	}
	if fi.w < 0 || ti.w < 0 {
		if _, ok := to.Underlying().(*types.Basic); ok {
			// uintptr <-> unsafe.Pointer and similar
			panic(pathEnd{"unsupported", "convert " + from.String() + " to " + to.String()})
		}
		return v
	}
	switch {
	case fi.float && ti.float:
		if fi.w == ti.w {
			return s
		}
		if s.t == nil {
			if fi.w == 32 {
				return Sc{w: 64, c: math.Float64bits(float64(math.Float32frombits(uint32(s.c))))}
			}
			return Sc{w: 32, c: uint64(math.Float32bits(float32(math.Float64frombits(s.c))))}
		}
		panic(pathEnd{"unsupported", "symbolic float32 conversion"})
	case !fi.float && ti.float:
		if ti.w != 64 {
			panic(pathEnd{"unsupported", "int to float32"})
		}
		if s.t == nil {
			if fi.signed {
				return Sc{w: 64, c: math.Float64bits(float64(sextW(fi.w, s.c)))}
			}
			return Sc{w: 64, c: math.Float64bits(float64(maskW(fi.w, s.c)))}
		}
		cvt := "(_ to_fp_unsigned 11 53) RNE"
		if fi.signed {
			cvt = "(_ to_fp 11 53) RNE"
		}
		res := e.tt.App(cvt, sortF64, s.t)
		return e.defineAs("i2f", res)
	case fi.float && !ti.float:
		if fi.w != 64 {
			panic(pathEnd{"unsupported", "float32 to int"})
		}
		if s.t == nil {
			f := math.Float64frombits(s.c)
			var r uint64
			if ti.signed {
				r = uint64(int64(f))
			} else {
				r = uint64(f)
			}
			return Sc{w: ti.w, c: maskW(ti.w, r)}
		}
		op := fmt.Sprintf("(_ fp.to_ubv %d) RTZ", ti.w)
		if ti.signed {
			op = fmt.Sprintf("(_ fp.to_sbv %d) RTZ", ti.w)
		}
		return e.symSc(e.tt.App(op, ti.w, e.tt.ToFP(s.t)))
	}
	// int -> int
	if fi.w == ti.w {
		return Sc{w: ti.w, c: s.c, t: s.t}
	}
	if s.t == nil {
		c := s.c
		if ti.w > fi.w && fi.signed {
			c = uint64(sextW(fi.w, c))
		}
		return Sc{w: ti.w, c: maskW(ti.w, c)}
	}
	if ti.w > fi.w {
		if fi.signed {
			return e.symSc(e.tt.SignExt(ti.w-fi.w, s.t))
		}
		return e.symSc(e.tt.ZeroExt(ti.w-fi.w, s.t))
	}
	return e.symSc(e.tt.Extract(ti.w-1, 0, s.t))
}
