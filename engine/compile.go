// Pre-resolution of go/ssa functions into an operand-indexed form for fast interpretation.
package main

import (
	"go/constant"
	"go/types"
	"math"

	"golang.org/x/tools/go/ssa"
)

const (
	opNone = iota
	opReg
	opConst
	opZero
	opGlobal
	opFunc
	opBuiltin
)

type opnd struct {
	kind int
	idx  int
	v    Val
	g    *ssa.Global
	t    types.Type
	fn   *ssa.Function
	bi   *ssa.Builtin
}

type cInstr struct {
	in   ssa.Instruction
	code int
	ops  []opnd
	dst  int // register index of the result, -1 if none
	ti   tinfo
	ti2  tinfo
	tis  []tinfo
	typ  types.Type
}

type cBlock struct {
	b      *ssa.BasicBlock
	phis   []cInstr
	instrs []cInstr
	succs  []*cBlock
	// predIndex[i] = index of this block among succs[i].Preds — used for phi edge selection
	predIx []int
}

type cFunc struct {
	fn       *ssa.Function
	blocks   []*cBlock
	nregs    int
	params   []int
	freevars []int
	hasDefer bool
	recover  *cBlock
	named    []int // registers of named result allocs (for recover) - unused
}

// instruction codes
const (
	iAlloc = iota
	iBinOp
	iCall
	iChangeInterface
	iChangeType
	iConvert
	iDefer
	iRunDefers
	iExtract
	iField
	iFieldAddr
	iIf
	iJump
	iIndex
	iIndexAddr
	iLookup
	iMakeClosure
	iMakeInterface
	iMakeMap
	iMakeSlice
	iMapUpdate
	iRange
	iNext
	iPanic
	iPhi
	iReturn
	iSlice
	iStore
	iTypeAssert
	iUnOp
	iDebugRef
	iSliceToArrayPointer
	iGo
	iMakeChan
	iSend
	iSelect
	iMultiConvert
	iOther
)

func instrCode(in ssa.Instruction) int {
	switch in.(type) {
	case *ssa.Alloc:
		return iAlloc
	case *ssa.BinOp:
		return iBinOp
	case *ssa.Call:
		return iCall
	case *ssa.ChangeInterface:
		return iChangeInterface
	case *ssa.ChangeType:
		return iChangeType
	case *ssa.Convert:
		return iConvert
	case *ssa.Defer:
		return iDefer
	case *ssa.RunDefers:
		return iRunDefers
	case *ssa.Extract:
		return iExtract
	case *ssa.Field:
		return iField
	case *ssa.FieldAddr:
		return iFieldAddr
	case *ssa.If:
		return iIf
	case *ssa.Jump:
		return iJump
	case *ssa.Index:
		return iIndex
	case *ssa.IndexAddr:
		return iIndexAddr
	case *ssa.Lookup:
		return iLookup
	case *ssa.MakeClosure:
		return iMakeClosure
	case *ssa.MakeInterface:
		return iMakeInterface
	case *ssa.MakeMap:
		return iMakeMap
	case *ssa.MakeSlice:
		return iMakeSlice
	case *ssa.MapUpdate:
		return iMapUpdate
	case *ssa.Range:
		return iRange
	case *ssa.Next:
		return iNext
	case *ssa.Panic:
		return iPanic
	case *ssa.Phi:
		return iPhi
	case *ssa.Return:
		return iReturn
	case *ssa.Slice:
		return iSlice
	case *ssa.Store:
		return iStore
	case *ssa.TypeAssert:
		return iTypeAssert
	case *ssa.UnOp:
		return iUnOp
	case *ssa.DebugRef:
		return iDebugRef
	case *ssa.SliceToArrayPointer:
		return iSliceToArrayPointer
	case *ssa.Go:
		return iGo
	case *ssa.MakeChan:
		return iMakeChan
	case *ssa.Send:
		return iSend
	case *ssa.Select:
		return iSelect
	case *ssa.MultiConvert:
		return iMultiConvert
	}
	return iOther
}

func constVal(c *ssa.Const) (Val, bool) {
	if c.Value == nil {
		return nil, false // zero value of its type: allocate at use
	}
	t := c.Type()
	if b, ok := t.Underlying().(*types.Basic); ok && b.Info()&types.IsString != 0 {
		return Str(constant.StringVal(c.Value)), true
	}
	ti := scalarInfo(t)
	if ti.w < 0 {
		return nil, false
	}
	if ti.w == 0 {
		return bsc(constant.BoolVal(c.Value)), true
	}
	if ti.float {
		f, _ := constant.Float64Val(constant.ToFloat(c.Value))
		if ti.w == 32 {
			return Sc{w: 32, c: uint64(math.Float32bits(float32(f)))}, true
		}
		return Sc{w: 64, c: math.Float64bits(f)}, true
	}
	iv := constant.ToInt(c.Value)
	if i, ok := constant.Int64Val(iv); ok {
		return Sc{w: ti.w, c: maskW(ti.w, uint64(i))}, true
	}
	u, _ := constant.Uint64Val(iv)
	return Sc{w: ti.w, c: maskW(ti.w, u)}, true
}

func (e *Engine) compile(fn *ssa.Function) *cFunc {
	if cf, ok := e.cfuncs[fn]; ok {
		return cf
	}
	cf := &cFunc{fn: fn}
	e.cfuncs[fn] = cf
	regs := map[ssa.Value]int{}
	newReg := func(v ssa.Value) int {
		r := len(regs)
		regs[v] = r
		return r
	}
	for _, p := range fn.Params {
		cf.params = append(cf.params, newReg(p))
	}
	for _, fv := range fn.FreeVars {
		cf.freevars = append(cf.freevars, newReg(fv))
	}
	for _, b := range fn.Blocks {
		for _, in := range b.Instrs {
			if v, ok := in.(ssa.Value); ok {
				newReg(v)
			}
		}
	}
	cf.nregs = len(regs)
	resolve := func(v ssa.Value) opnd {
		switch v := v.(type) {
		case nil:
			return opnd{kind: opNone}
		case *ssa.Const:
			if cv, ok := constVal(v); ok {
				return opnd{kind: opConst, v: cv}
			}
			return opnd{kind: opZero, t: v.Type()}
		case *ssa.Global:
			return opnd{kind: opGlobal, g: v}
		case *ssa.Function:
			return opnd{kind: opFunc, fn: v}
		case *ssa.Builtin:
			return opnd{kind: opBuiltin, bi: v}
		}
		r, ok := regs[v]
		if !ok {
			panic("unresolved ssa value " + v.Name() + " in " + fn.String())
		}
		return opnd{kind: opReg, idx: r}
	}
	bmap := map[*ssa.BasicBlock]*cBlock{}
	for _, b := range fn.Blocks {
		cb := &cBlock{b: b}
		bmap[b] = cb
		cf.blocks = append(cf.blocks, cb)
	}
	var rands []*ssa.Value
	for _, b := range fn.Blocks {
		cb := bmap[b]
		for _, s := range b.Succs {
			cb.succs = append(cb.succs, bmap[s])
			ix := -1
			for i, p := range s.Preds {
				if p == b {
					ix = i
					break
				}
			}
			cb.predIx = append(cb.predIx, ix)
		}
		for _, in := range b.Instrs {
			ci := cInstr{in: in, code: instrCode(in), dst: -1}
			if v, ok := in.(ssa.Value); ok {
				ci.dst = regs[v]
				ci.typ = v.Type()
			}
			rands = in.Operands(rands[:0])
			for _, r := range rands {
				if r == nil || *r == nil {
					ci.ops = append(ci.ops, opnd{kind: opNone})
				} else {
					ci.ops = append(ci.ops, resolve(*r))
				}
			}
			switch x := in.(type) {
			case *ssa.BinOp:
				ci.ti = scalarInfo(x.X.Type())
				ci.ti2 = scalarInfo(x.Y.Type())
			case *ssa.UnOp:
				ci.ti = scalarInfo(x.X.Type())
			case *ssa.Convert:
				ci.ti = scalarInfo(x.X.Type())
				ci.ti2 = scalarInfo(x.Type())
			case *ssa.Defer:
				cf.hasDefer = true
			case *ssa.IndexAddr:
				ci.ti = scalarInfo(x.Index.Type())
			case *ssa.Index:
				ci.ti = scalarInfo(x.Index.Type())
			case *ssa.Lookup:
				ci.ti = scalarInfo(x.Index.Type())
			case *ssa.Slice:
				ci.tis = make([]tinfo, 4)
				for k, v := range []ssa.Value{nil, x.Low, x.High, x.Max} {
					if v != nil {
						ci.tis[k] = scalarInfo(v.Type())
					}
				}
			case *ssa.MakeSlice:
				ci.ti = scalarInfo(x.Len.Type())
				ci.ti2 = scalarInfo(x.Cap.Type())
			}
			if ci.code == iPhi {
				cb.phis = append(cb.phis, ci)
			} else if ci.code != iDebugRef {
				cb.instrs = append(cb.instrs, ci)
			}
		}
	}
	if fn.Recover != nil {
		cf.recover = bmap[fn.Recover]
	}
	return cf
}
