// Term DAG: hash-consed SMT terms (Bool, BitVec w, Float64) with light simplification.
package main

import (
	"fmt"
	"math"
	"math/bits"
	"sort"
	"strings"
)

// Sort encoding in Term.w: 0 = Bool, >0 = BitVec of that width, -64 = Float64, -1 = RoundingMode.
const sortF64 = -64

type Term struct {
	op   string // "var", "const", or SMT operator text (may contain indices, e.g. "(_ extract 7 0)")
	args []*Term
	w    int
	name string // var name
	c    uint64 // const value (bool: 0/1)
	id   int
	vars []int32 // sorted ids of variables occurring (memoised)
	vok  bool
	size int
}

// TermTab is a per-worker hash-consing table.
type TermTab struct {
	tab   map[string]*Term
	next  int
	byVar map[string]*Term
	tt    *Term
	ff    *Term
}

func newTermTab() *TermTab {
	t := &TermTab{tab: map[string]*Term{}, byVar: map[string]*Term{}}
	t.tt = t.mk(&Term{op: "const", w: 0, c: 1})
	t.ff = t.mk(&Term{op: "const", w: 0, c: 0})
	return t
}

func (tt *TermTab) key(t *Term) string {
	var b strings.Builder
	b.WriteString(t.op)
	b.WriteByte('|')
	fmt.Fprintf(&b, "%d|%s|%d", t.w, t.name, t.c)
	for _, a := range t.args {
		fmt.Fprintf(&b, "|%d", a.id)
	}
	return b.String()
}

func (tt *TermTab) mk(t *Term) *Term {
	k := tt.key(t)
	if o, ok := tt.tab[k]; ok {
		return o
	}
	t.id = tt.next
	tt.next++
	t.size = 1
	for _, a := range t.args {
		t.size += a.size
		if t.size > 1<<30 {
			t.size = 1 << 30
		}
	}
	tt.tab[k] = t
	return t
}

func (tt *TermTab) Var(name string, w int) *Term {
	if v, ok := tt.byVar[name]; ok {
		if v.w != w {
			panic("var redeclared with different sort: " + name)
		}
		return v
	}
	v := tt.mk(&Term{op: "var", w: w, name: name})
	tt.byVar[name] = v
	return v
}

func maskW(w int, c uint64) uint64 {
	if w >= 64 || w <= 0 {
		return c
	}
	return c & ((1 << uint(w)) - 1)
}

func (tt *TermTab) Const(w int, c uint64) *Term {
	if w == 0 {
		if c != 0 {
			return tt.tt
		}
		return tt.ff
	}
	return tt.mk(&Term{op: "const", w: w, c: maskW(w, c)})
}

func (tt *TermTab) Bool(b bool) *Term {
	if b {
		return tt.tt
	}
	return tt.ff
}

func (t *Term) isConst() bool { return t.op == "const" }

// App builds an application with simplification for the common boolean/ite shapes.
func (tt *TermTab) App(op string, w int, args ...*Term) *Term {
	switch op {
	case "not":
		a := args[0]
		if a.isConst() {
			return tt.Bool(a.c == 0)
		}
		if a.op == "not" {
			return a.args[0]
		}
	case "and":
		out := args[:0:0]
		for _, a := range args {
			if a.isConst() {
				if a.c == 0 {
					return tt.ff
				}
				continue
			}
			out = append(out, a)
		}
		if len(out) == 0 {
			return tt.tt
		}
		if len(out) == 1 {
			return out[0]
		}
		args = out
	case "or":
		out := args[:0:0]
		for _, a := range args {
			if a.isConst() {
				if a.c != 0 {
					return tt.tt
				}
				continue
			}
			out = append(out, a)
		}
		if len(out) == 0 {
			return tt.ff
		}
		if len(out) == 1 {
			return out[0]
		}
		args = out
	case "=":
		if args[0] == args[1] && args[0].w != sortF64 {
			return tt.tt
		}
		if args[0].isConst() && args[1].isConst() && args[0].w >= 0 {
			return tt.Bool(args[0].c == args[1].c)
		}
		if args[0].w == 0 { // boolean equality with constant
			if args[1].isConst() {
				if args[1].c != 0 {
					return args[0]
				}
				return tt.App("not", 0, args[0])
			}
			if args[0].isConst() {
				if args[0].c != 0 {
					return args[1]
				}
				return tt.App("not", 0, args[1])
			}
		}
	case "ite":
		if args[0].isConst() {
			if args[0].c != 0 {
				return args[1]
			}
			return args[2]
		}
		if args[1] == args[2] {
			return args[1]
		}
		if w == 0 && args[1].isConst() && args[2].isConst() {
			if args[1].c != 0 {
				return args[0]
			}
			return tt.App("not", 0, args[0])
		}
	}
	cp := make([]*Term, len(args))
	copy(cp, args)
	return tt.mk(&Term{op: op, w: w, args: cp})
}

func (tt *TermTab) Not(a *Term) *Term       { return tt.App("not", 0, a) }
func (tt *TermTab) And(a ...*Term) *Term    { return tt.App("and", 0, a...) }
func (tt *TermTab) Or(a ...*Term) *Term     { return tt.App("or", 0, a...) }
func (tt *TermTab) Eq(a, b *Term) *Term     { return tt.App("=", 0, a, b) }
func (tt *TermTab) Ite(c, a, b *Term) *Term { return tt.App("ite", a.w, c, a, b) }
func (tt *TermTab) ToFP(bits *Term) *Term   { return tt.App("(_ to_fp 11 53)", sortF64, bits) }
func (tt *TermTab) Extract(hi, lo int, a *Term) *Term {
	if a.isConst() {
		return tt.Const(hi-lo+1, a.c>>uint(lo))
	}
	if lo == 0 && hi == a.w-1 {
		return a
	}
	return tt.App(fmt.Sprintf("(_ extract %d %d)", hi, lo), hi-lo+1, a)
}
func (tt *TermTab) ZeroExt(n int, a *Term) *Term {
	if n == 0 {
		return a
	}
	if a.isConst() {
		return tt.Const(a.w+n, a.c)
	}
	return tt.App(fmt.Sprintf("(_ zero_extend %d)", n), a.w+n, a)
}
func (tt *TermTab) SignExt(n int, a *Term) *Term {
	if n == 0 {
		return a
	}
	if a.isConst() {
		return tt.Const(a.w+n, uint64(sextW(a.w, a.c)))
	}
	return tt.App(fmt.Sprintf("(_ sign_extend %d)", n), a.w+n, a)
}

func sextW(w int, c uint64) int64 {
	if w >= 64 {
		return int64(c)
	}
	sh := uint(64 - w)
	return int64(c<<sh) >> sh
}

// Vars returns the sorted variable ids of t.
func (t *Term) Vars() []int32 {
	if t.vok {
		return t.vars
	}
	t.vok = true
	if t.op == "var" {
		t.vars = []int32{int32(t.id)}
		return t.vars
	}
	if len(t.args) == 0 {
		return nil
	}
	if len(t.args) == 1 {
		t.vars = t.args[0].Vars()
		return t.vars
	}
	seen := map[int32]bool{}
	for _, a := range t.args {
		for _, v := range a.Vars() {
			seen[v] = true
		}
	}
	out := make([]int32, 0, len(seen))
	for v := range seen {
		out = append(out, v)
	}
	sort.Slice(out, func(i, j int) bool { return out[i] < out[j] })
	t.vars = out
	return out
}

func sortName(w int) string {
	switch {
	case w == 0:
		return "Bool"
	case w == sortF64:
		return "(_ FloatingPoint 11 53)"
	case w > 0:
		return fmt.Sprintf("(_ BitVec %d)", w)
	}
	return "RoundingMode"
}

// printer prints terms with let-sharing of repeated compound subterms.
type printer struct {
	cnt map[*Term]int
}

func (p *printer) count(t *Term) {
	p.cnt[t]++
	if p.cnt[t] > 1 {
		return
	}
	for _, a := range t.args {
		p.count(a)
	}
}

func constText(t *Term) string {
	if t.w == 0 {
		if t.c != 0 {
			return "true"
		}
		return "false"
	}
	if t.w%4 == 0 {
		return fmt.Sprintf("#x%0*x", t.w/4, t.c)
	}
	return fmt.Sprintf("(_ bv%d %d)", t.c, t.w)
}

// Text renders t as SMT-LIB2. Shared compound subterms are bound with nested lets.
func (t *Term) Text() string {
	if t.size < 40 {
		var b strings.Builder
		plain(&b, t, nil)
		return b.String()
	}
	p := &printer{cnt: map[*Term]int{}}
	p.count(t)
	// collect shared nodes in topological (children first) order
	var order []*Term
	names := map[*Term]string{}
	seen := map[*Term]bool{}
	var walk func(x *Term)
	walk = func(x *Term) {
		if seen[x] {
			return
		}
		seen[x] = true
		for _, a := range x.args {
			walk(a)
		}
		if p.cnt[x] > 1 && len(x.args) > 0 {
			order = append(order, x)
		}
	}
	walk(t)
	var b strings.Builder
	for _, x := range order {
		b.WriteString("(let ((")
		n := fmt.Sprintf("s!%d", x.id)
		b.WriteString(n)
		b.WriteByte(' ')
		plain(&b, x, names) // names of earlier ones only
		b.WriteString(")) ")
		names[x] = n
	}
	plain(&b, t, names)
	for range order {
		b.WriteByte(')')
	}
	return b.String()
}

func plain(b *strings.Builder, t *Term, names map[*Term]string) {
	if n, ok := names[t]; ok {
		b.WriteString(n)
		return
	}
	switch t.op {
	case "var":
		b.WriteString(t.name)
		return
	case "const":
		b.WriteString(constText(t))
		return
	}
	b.WriteByte('(')
	b.WriteString(t.op)
	for _, a := range t.args {
		b.WriteByte(' ')
		plain(b, a, names)
	}
	b.WriteByte(')')
}

// ---------- concrete evaluation of terms under a model ----------

type Model map[string]uint64

// Eval evaluates t under m (unassigned variables read as 0). ok=false if an operator is not supported.
func (t *Term) Eval(m Model, memo map[*Term]uint64) (uint64, bool) {
	if v, ok := memo[t]; ok {
		return v, true
	}
	r, ok := t.eval1(m, memo)
	if ok {
		memo[t] = r
	}
	return r, ok
}

func (t *Term) eval1(m Model, memo map[*Term]uint64) (uint64, bool) {
	switch t.op {
	case "var":
		return m[t.name], true
	case "const":
		return t.c, true
	}
	av := make([]uint64, len(t.args))
	for i, a := range t.args {
		// short-circuit ite
		if t.op == "ite" && i > 0 {
			break
		}
		v, ok := a.Eval(m, memo)
		if !ok {
			return 0, false
		}
		av[i] = v
	}
	b2u := func(b bool) uint64 {
		if b {
			return 1
		}
		return 0
	}
	w := 0
	if len(t.args) > 0 {
		w = t.args[0].w
	}
	switch t.op {
	case "ite":
		k := 2
		if av[0] != 0 {
			k = 1
		}
		return t.args[k].Eval(m, memo)
	case "not":
		return b2u(av[0] == 0), true
	case "and":
		for _, v := range av {
			if v == 0 {
				return 0, true
			}
		}
		return 1, true
	case "or":
		for _, v := range av {
			if v != 0 {
				return 1, true
			}
		}
		return 0, true
	case "=":
		if w == sortF64 {
			return 0, false
		}
		return b2u(av[0] == av[1]), true
	case "bvadd":
		return maskW(t.w, av[0]+av[1]), true
	case "bvsub":
		return maskW(t.w, av[0]-av[1]), true
	case "bvmul":
		return maskW(t.w, av[0]*av[1]), true
	case "bvand":
		return av[0] & av[1], true
	case "bvor":
		return av[0] | av[1], true
	case "bvxor":
		return av[0] ^ av[1], true
	case "bvnot":
		return maskW(t.w, ^av[0]), true
	case "bvneg":
		return maskW(t.w, -av[0]), true
	case "bvudiv":
		if av[1] == 0 {
			return maskW(t.w, ^uint64(0)), true
		}
		return av[0] / av[1], true
	case "bvurem":
		if av[1] == 0 {
			return av[0], true
		}
		return av[0] % av[1], true
	case "bvsdiv":
		a, b := sextW(w, av[0]), sextW(w, av[1])
		if b == 0 {
			if a < 0 {
				return 1, true
			}
			return maskW(t.w, ^uint64(0)), true
		}
		if b == -1 {
			return maskW(t.w, uint64(-a)), true
		}
		return maskW(t.w, uint64(a/b)), true
	case "bvsrem":
		a, b := sextW(w, av[0]), sextW(w, av[1])
		if b == 0 {
			return av[0], true
		}
		if b == -1 {
			return 0, true
		}
		return maskW(t.w, uint64(a%b)), true
	case "bvshl":
		if av[1] >= uint64(w) {
			return 0, true
		}
		return maskW(t.w, av[0]<<av[1]), true
	case "bvlshr":
		if av[1] >= uint64(w) {
			return 0, true
		}
		return av[0] >> av[1], true
	case "bvashr":
		s := av[1]
		if s >= uint64(w) {
			s = uint64(w - 1)
		}
		return maskW(t.w, uint64(sextW(w, av[0])>>s)), true
	case "bvult":
		return b2u(av[0] < av[1]), true
	case "bvule":
		return b2u(av[0] <= av[1]), true
	case "bvugt":
		return b2u(av[0] > av[1]), true
	case "bvuge":
		return b2u(av[0] >= av[1]), true
	case "bvslt":
		return b2u(sextW(w, av[0]) < sextW(w, av[1])), true
	case "bvsle":
		return b2u(sextW(w, av[0]) <= sextW(w, av[1])), true
	case "bvsgt":
		return b2u(sextW(w, av[0]) > sextW(w, av[1])), true
	case "bvsge":
		return b2u(sextW(w, av[0]) >= sextW(w, av[1])), true
	case "concat":
		return maskW(t.w, av[0]<<uint(t.args[1].w)|av[1]), true
	case "(_ to_fp 11 53)":
		return av[0], true // carried as bits
	case "fp.eq":
		return b2u(math.Float64frombits(av[0]) == math.Float64frombits(av[1])), true
	case "fp.lt":
		return b2u(math.Float64frombits(av[0]) < math.Float64frombits(av[1])), true
	case "fp.leq":
		return b2u(math.Float64frombits(av[0]) <= math.Float64frombits(av[1])), true
	case "fp.gt":
		return b2u(math.Float64frombits(av[0]) > math.Float64frombits(av[1])), true
	case "fp.geq":
		return b2u(math.Float64frombits(av[0]) >= math.Float64frombits(av[1])), true
	case "fp.isNaN":
		f := math.Float64frombits(av[0])
		return b2u(f != f), true
	}
	if strings.HasPrefix(t.op, "(_ extract ") {
		var hi, lo int
		fmt.Sscanf(t.op, "(_ extract %d %d)", &hi, &lo)
		return maskW(hi-lo+1, av[0]>>uint(lo)), true
	}
	if strings.HasPrefix(t.op, "(_ zero_extend ") {
		return av[0], true
	}
	if strings.HasPrefix(t.op, "(_ sign_extend ") {
		return maskW(t.w, uint64(sextW(w, av[0]))), true
	}
	_ = bits.Len
	return 0, false
}
