// Solver layer: one long-lived SMT process per worker, push/pop per query.
package main

import (
	"bufio"
	"fmt"
	"io"
	"os"
	"os/exec"
	"regexp"
	"strconv"
	"strings"
	"time"
)

type Solver struct {
	name     string
	cmd      *exec.Cmd
	in       io.WriteCloser
	out      *bufio.Reader
	declared map[string]bool
	Queries  int
	Sat      int
	Unsat    int
	Unknown  int
	Errors   int
	Dur      time.Duration
	Slowest  time.Duration
	logf     *os.File
	sinceRst int
}

var solverTimeoutMs = 30000
var slowMs = func() int { v, _ := strconv.Atoi(os.Getenv("GOSYM_SLOW")); return v }()

func newSolver(kind string) *Solver {
	s := &Solver{name: kind}
	s.start()
	return s
}

func (s *Solver) start() {
	var cmd *exec.Cmd
	switch s.name {
	case "cvc5":
		cmd = exec.Command("cvc5", "--incremental", "--lang", "smt2", "--produce-models", fmt.Sprintf("--tlimit-per=%d", solverTimeoutMs))
	case "z3old":
		cmd = exec.Command("/usr/bin/z3", "-in")
	default:
		cmd = exec.Command("z3-new", "-in")
	}
	in, _ := cmd.StdinPipe()
	out, _ := cmd.StdoutPipe()
	cmd.Stderr = os.Stderr
	if err := cmd.Start(); err != nil {
		fmt.Fprintln(os.Stderr, "cannot start solver:", err)
		os.Exit(3)
	}
	s.cmd, s.in, s.out = cmd, in, bufio.NewReaderSize(out, 1<<16)
	s.declared = map[string]bool{}
	if s.name == "cvc5" {
		io.WriteString(in, "(set-logic ALL)\n")
	} else {
		fmt.Fprintf(in, "(set-option :produce-models true)\n(set-option :timeout %d)\n", solverTimeoutMs)
	}
	if p := os.Getenv("GOSYM_SMTLOG"); p != "" && s.logf == nil {
		s.logf, _ = os.Create(fmt.Sprintf("%s.%d", p, os.Getpid()))
	}
}

func (s *Solver) Close() {
	if s.cmd != nil {
		s.in.Close()
		s.cmd.Process.Kill()
		s.cmd.Wait()
		s.cmd = nil
	}
}

func (s *Solver) restart() {
	s.Close()
	s.start()
	s.sinceRst = 0
}

var modelRe = regexp.MustCompile(`\(\s*([A-Za-z_!][^\s()]*)\s+(#x[0-9a-fA-F]+|#b[01]+|true|false|\(_ bv(\d+) \d+\))\s*\)`)

func collectVars(t *Term, seen map[*Term]bool, out *[]*Term) {
	if seen[t] {
		return
	}
	seen[t] = true
	if t.op == "var" {
		*out = append(*out, t)
		return
	}
	for _, a := range t.args {
		collectVars(a, seen, out)
	}
}

// Check decides satisfiability of the conjunction. res is "sat", "unsat" or "unknown"
// (which also covers solver errors and timeouts). With wantModel the values of all
// variables occurring in the assertions are returned.
func (s *Solver) Check(asserts []*Term, wantModel bool) (string, Model) {
	t0 := time.Now()
	s.Queries++
	s.sinceRst++
	if s.sinceRst > 200000 {
		s.restart()
	}
	var b strings.Builder
	seen := map[*Term]bool{}
	var vars []*Term
	for _, a := range asserts {
		collectVars(a, seen, &vars)
	}
	for _, v := range vars {
		if !s.declared[v.name] {
			s.declared[v.name] = true
			fmt.Fprintf(&b, "(declare-const %s %s)\n", v.name, sortName(v.w))
		}
	}
	b.WriteString("(push 1)\n")
	for _, a := range asserts {
		b.WriteString("(assert ")
		b.WriteString(a.Text())
		b.WriteString(")\n")
	}
	if s.name == "cvc5" || s.name == "z3old" {
		b.WriteString("(check-sat)\n(echo \"DONE\")\n")
	} else {
		// solve-eqs substitutes equalities between variables before bit-blasting: without it an
		// equality like f(x,y) = f(x,x) under x = y has to be proved through the divider circuits
		fmt.Fprintf(&b, "(check-sat-using (try-for (then simplify solve-eqs simplify smt) %d))\n(echo \"DONE\")\n", solverTimeoutMs)
	}
	if s.logf != nil {
		s.logf.WriteString(b.String())
	}
	io.WriteString(s.in, b.String())
	res := ""
	for {
		line, err := s.out.ReadString('\n')
		if err != nil {
			res = "unknown"
			s.Errors++
			s.restart()
			s.Unknown++
			return "unknown", nil
		}
		line = strings.TrimSpace(line)
		if strings.Contains(line, "DONE") {
			break
		}
		if line == "" {
			continue
		}
		if strings.HasPrefix(line, "(error") {
			s.Errors++
			res = "unknown"
			fmt.Fprintln(os.Stderr, "solver error:", line)
			continue
		}
		if res == "" {
			res = line
		}
	}
	if res != "sat" && res != "unsat" {
		res = "unknown"
	}
	var model Model
	if res == "sat" && wantModel && len(vars) > 0 {
		var g strings.Builder
		g.WriteString("(get-value (")
		for _, v := range vars {
			g.WriteString(v.name)
			g.WriteByte(' ')
		}
		g.WriteString("))\n(echo \"DONE\")\n")
		io.WriteString(s.in, g.String())
		var txt strings.Builder
		for {
			line, err := s.out.ReadString('\n')
			if err != nil {
				break
			}
			if strings.Contains(line, "DONE") {
				break
			}
			txt.WriteString(line)
		}
		model = Model{}
		for _, m := range modelRe.FindAllStringSubmatch(txt.String(), -1) {
			var v uint64
			switch {
			case m[2] == "true":
				v = 1
			case m[2] == "false":
				v = 0
			case strings.HasPrefix(m[2], "#x"):
				v, _ = strconv.ParseUint(m[2][2:], 16, 64)
			case strings.HasPrefix(m[2], "#b"):
				v, _ = strconv.ParseUint(m[2][2:], 2, 64)
			default:
				v, _ = strconv.ParseUint(m[3], 10, 64)
			}
			model[m[1]] = v
		}
	}
	io.WriteString(s.in, "(pop 1)\n")
	d := time.Since(t0)
	if slowMs > 0 && d > time.Duration(slowMs)*time.Millisecond {
		fmt.Fprintf(os.Stderr, "SLOW QUERY %.0fms %s:\n%s\n", float64(d.Milliseconds()), res, b.String())
	}
	s.Dur += d
	if d > s.Slowest {
		s.Slowest = d
	}
	switch res {
	case "sat":
		s.Sat++
	case "unsat":
		s.Unsat++
	default:
		s.Unknown++
	}
	return res, model
}
