// Value model of the symbolic interpreter.
package main

import (
	"fmt"
	"go/types"

	"golang.org/x/tools/go/ssa"
)

type Val interface{}

// Sc is a scalar: bool (w==0) or an integer/float carried as a bit-vector of width w.
// t != nil means symbolic.
type Sc struct {
	t *Term
	c uint64
	w int
}

type St []Val // struct or array: one cell per field/element
type Tu []Val // tuple

// Sl is a slice; a is the host slice over the backing cells (len/cap/aliasing as in Go).
type Sl struct{ a []Val }

type Str string // concrete string
type SStr []Sc  // string of concrete length with (possibly) symbolic bytes

// SAtom is an opaque string produced by formatting a symbolic number.
type SAtom struct {
	fn  string
	arg *Term
}

// SCat is a concatenation containing at least one SAtom; parts are Str, SStr or SAtom.
type SCat []Val

// If is an interface value.
type If struct {
	t types.Type
	v Val
}

// Fn is a function value (plain function or closure).
type Fn struct {
	f   *ssa.Function
	env []Val
}

// MapV is a Go map with concrete keys.
type MapV struct {
	keys []string
	m    map[string]*mapEnt
}
type mapEnt struct {
	k, v Val
	dead bool
}

// SymRef is the address of cells[idx] for a symbolic in-range idx (loads only).
type SymRef struct {
	cells []Val
	idx   *Term
}

// iter is the state of a range loop over a map or string.
type iter struct {
	m    *MapV
	keys []string
	s    []Sc
	pos  int
	str  bool
}

type goPanic struct {
	v   Val
	msg string
}

// pathEnd terminates the current path (not a Go panic).
type pathEnd struct {
	kind string // "assume", "violation", "unsupported", "fuel", "exit", "infeasible", "inconclusive", "depth"
	msg  string
}

func bsc(b bool) Sc {
	if b {
		return Sc{w: 0, c: 1}
	}
	return Sc{w: 0}
}
func isc(c int64) Sc     { return Sc{w: 64, c: uint64(c)} }
func u8(c uint64) Sc     { return Sc{w: 8, c: c & 0xff} }
func (s Sc) isSym() bool { return s.t != nil }

func (e *Engine) term(s Sc) *Term {
	if s.t != nil {
		return s.t
	}
	return e.tt.Const(s.w, s.c)
}

func (e *Engine) symSc(t *Term) Sc {
	if t.isConst() {
		return Sc{w: t.w, c: t.c}
	}
	return Sc{w: t.w, t: t}
}

// ---------- type info ----------

type tinfo struct {
	w      int // scalar width; -1 if not scalar
	signed bool
	float  bool
	str    bool
}

func scalarInfo(t types.Type) tinfo {
	if b, ok := t.Underlying().(*types.Basic); ok {
		switch b.Kind() {
		case types.Bool, types.UntypedBool:
			return tinfo{w: 0}
		case types.Int, types.Int64, types.UntypedInt:
			return tinfo{w: 64, signed: true}
		case types.Uint, types.Uint64, types.Uintptr:
			return tinfo{w: 64}
		case types.Int32, types.UntypedRune:
			return tinfo{w: 32, signed: true}
		case types.Uint32:
			return tinfo{w: 32}
		case types.Int16:
			return tinfo{w: 16, signed: true}
		case types.Uint16:
			return tinfo{w: 16}
		case types.Int8:
			return tinfo{w: 8, signed: true}
		case types.Uint8:
			return tinfo{w: 8}
		case types.Float64, types.UntypedFloat:
			return tinfo{w: 64, signed: true, float: true}
		case types.Float32:
			return tinfo{w: 32, signed: true, float: true}
		case types.String, types.UntypedString:
			return tinfo{w: -1, str: true}
		}
	}
	return tinfo{w: -1}
}

func (e *Engine) zero(t types.Type) Val {
	switch u := t.Underlying().(type) {
	case *types.Basic:
		if u.Info()&types.IsString != 0 {
			return Str("")
		}
		if u.Kind() == types.UnsafePointer {
			return (*Val)(nil)
		}
		if u.Kind() == types.UntypedNil {
			return nil
		}
		ti := scalarInfo(t)
		if ti.w < 0 {
			panic(pathEnd{"unsupported", "zero of " + t.String()})
		}
		return Sc{w: ti.w}
	case *types.Struct:
		s := make(St, u.NumFields())
		for i := range s {
			s[i] = e.zero(u.Field(i).Type())
		}
		return s
	case *types.Array:
		s := make(St, u.Len())
		for i := range s {
			s[i] = e.zero(u.Elem())
		}
		return s
	case *types.Pointer:
		return (*Val)(nil)
	case *types.Signature:
		return (*Fn)(nil)
	case *types.Slice:
		return Sl{}
	case *types.Interface:
		return If{}
	case *types.Map:
		return (*MapV)(nil)
	case *types.Tuple:
		s := make(Tu, u.Len())
		for i := range s {
			s[i] = e.zero(u.At(i).Type())
		}
		return s
	case *types.Chan:
		return nil
	}
	panic(pathEnd{"unsupported", "zero of " + t.String()})
}

// cp copies a value with Go value semantics (structs/arrays deep, everything else by reference).
func cp(v Val) Val {
	switch s := v.(type) {
	case St:
		n := make(St, len(s))
		for i := range s {
			n[i] = cp(s[i])
		}
		return n
	case Tu:
		n := make(Tu, len(s))
		for i := range s {
			n[i] = cp(s[i])
		}
		return n
	}
	return v
}

// assign stores v into *dst preserving the identity of struct/array cells.
func assign(dst *Val, v Val) {
	if s, ok := v.(St); ok {
		if d, ok := (*dst).(St); ok && len(d) == len(s) {
			for i := range s {
				assign(&d[i], s[i])
			}
			return
		}
		*dst = cp(v)
		return
	}
	*dst = v
}

func bytesOf(v Val) []Sc {
	switch v := v.(type) {
	case Str:
		r := make([]Sc, len(v))
		for i := 0; i < len(v); i++ {
			r[i] = Sc{w: 8, c: uint64(v[i])}
		}
		return r
	case SStr:
		return v
	}
	panic(pathEnd{"unsupported", fmt.Sprintf("bytes of %T", v)})
}

func mkStr(b []Sc) Val {
	for _, x := range b {
		if x.t != nil {
			return SStr(b)
		}
	}
	r := make([]byte, len(b))
	for i, x := range b {
		r[i] = byte(x.c)
	}
	return Str(r)
}

func isString(v Val) bool {
	switch v.(type) {
	case Str, SStr, SAtom, SCat:
		return true
	}
	return false
}

func strParts(v Val) []Val {
	switch v := v.(type) {
	case SCat:
		return v
	case Str:
		if v == "" {
			return nil
		}
	}
	return []Val{v}
}

// concat concatenates two string values.
func concat(a, b Val) Val {
	_, aa := a.(SAtom)
	_, ab := a.(SCat)
	_, ba := b.(SAtom)
	_, bb := b.(SCat)
	if !aa && !ab && !ba && !bb {
		if x, ok := a.(Str); ok {
			if y, ok := b.(Str); ok {
				return x + y
			}
		}
		return mkStr(append(append([]Sc{}, bytesOf(a)...), bytesOf(b)...))
	}
	parts := append(append(SCat{}, strParts(a)...), strParts(b)...)
	// merge adjacent plain pieces
	out := SCat{}
	for _, p := range parts {
		if len(out) > 0 {
			_, la := out[len(out)-1].(SAtom)
			_, pa := p.(SAtom)
			if !la && !pa {
				out[len(out)-1] = concat(out[len(out)-1], p)
				continue
			}
		}
		out = append(out, p)
	}
	if len(out) == 1 {
		return out[0]
	}
	return out
}

func describe(v Val) string {
	switch v := v.(type) {
	case nil:
		return "nil"
	case Sc:
		if v.t != nil {
			return "sym"
		}
		if v.w == 0 {
			return fmt.Sprint(v.c != 0)
		}
		return fmt.Sprint(sextW(v.w, v.c))
	case Str:
		return fmt.Sprintf("%q", string(v))
	case SStr:
		return fmt.Sprintf("symstr[%d]", len(v))
	case St:
		return fmt.Sprintf("struct%d", len(v))
	case If:
		if v.t == nil {
			return "nil-iface"
		}
		return "iface(" + v.t.String() + ":" + describe(v.v) + ")"
	case *Val:
		if v == nil {
			return "nil-ptr"
		}
		return "ptr"
	}
	return fmt.Sprintf("%T", v)
}
